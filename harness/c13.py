"""C13 - spectrum arithmetic is pointwise, commutative and unit-agnostic."""
import itertools, random
from fractions import Fraction
import numpy as rnp

EXPLANATION = ('C13: Spectrum binary operators on an enumerated family of exact-rational wavelength grids (identical, nested, partially overlapping, '
               'touching, disjoint; uniform and non-uniform) with symbolic values, fill value and scalar/vector operands, in every pair of wavelength units; '
               'scipy.interpolate.interp1d(kind=linear) is modelled by its piecewise-linear definition.')
BOUNDS = {'quick': 'grid pairs of length 2..4 from the enumerated family (14 pairs) x {+,-,*,/} (and ** with exponents 2, 3) x sampling {min,left,right,float} x unit pairs (sampled 700 configs); scalar and vector operands',
          'thorough': 'grids of length up to 6, all 16 unit pairs, 2000 configs'}
ASSUMPTIONS = ['interpolation method linear (quadratic/cubic spline fitting is behind scipy and outside the claim)', 'power: integer exponents 2 and 3 (a symbolic exponent has no polynomial normal form)',
               'division: the divisor spectrum and the fill value are non-zero', 'operands not in nm: unit conversion in floating point may move a range edge by one ulp (the real code then uses the fill value at that edge sample); excluded under A-REAL, translator validation is skipped for those configurations', 'for units other than nm, grid pairs whose range is an exact multiple of the sampling are skipped: ceil() of the float ratio may land on either side (rounding tie)']
STUBS = ['scipy.interpolate.interp1d(kind="linear", bounds_error=False, fill_value=v): piecewise-linear interpolant, v outside the range']
TO_NM = {'nm': Fraction(1), 'um': Fraction(1000), 'm': Fraction(10 ** 9), 'angstrom': Fraction(1, 10)}

# grids in nanometres (exact rationals)
GRIDS = {
    'u3': [500, 510, 520], 'u4': [500, 510, 520, 530], 'u2': [500, 520], 'fine': [505, 510, 515], 'shift': [515, 525, 535],
    'touch': [520, 530], 'far': [600, 610, 620], 'latefine': [500, 512, 515, 530], 'nonuni': [500, 503, 520], 'nonuni4': [498, 500, 511, 530], 'odd': [501, 508, 522],
}
PAIRS = [('u3', 'u3'), ('u4', 'fine'), ('u3', 'shift'), ('u3', 'touch'), ('u3', 'far'), ('u3', 'nonuni'), ('nonuni', 'nonuni4'), ('u2', 'odd'),
         ('fine', 'u4'), ('shift', 'u3'), ('far', 'u3'), ('u4', 'nonuni4'), ('odd', 'shift'), ('u2', 'u2'), ('u3', 'latefine'), ('latefine', 'odd')]


def configs(tier, seed):
    rng = random.Random(1313 + seed)
    out = []
    units = ['nm', 'um', 'm', 'angstrom']
    want = 700 if tier == 'quick' else 2000
    for _ in range(want):
        a, b = rng.choice(PAIRS)
        out.append({'a': a, 'b': b, 'op': rng.choice(['add', 'subtract', 'multiply', 'divide']),
                    'sampling': rng.choice(['min', 'min', 'left', 'right', 7]), 'ua': rng.choice(units) if rng.random() < 0.4 else 'nm',
                    'ub': None, 'other': 'spectrum'})
        out[-1]['ub'] = out[-1]['ua'] if rng.random() < 0.7 else rng.choice(units)
    for a in ('u3', 'nonuni'):
        for op in ('add', 'subtract', 'multiply', 'divide', 'power'):
            for other in ('scalar', 'vector'):
                out.append({'a': a, 'b': a, 'op': op, 'sampling': 'min', 'ua': 'nm', 'ub': 'nm', 'other': other})
    out.append({'a': 'u3', 'b': 'shift', 'op': 'multiply', 'sampling': 'min', 'ua': 'um', 'ub': 'um', 'other': 'spectrum'})
    for ua, ub in (('nm', 'um'), ('um', 'nm'), ('um', 'um'), ('angstrom', 'nm')):
        for op in ('add', 'multiply'):
            out.append({'a': 'u3', 'b': 'odd', 'op': op, 'sampling': 'min', 'ua': ua, 'ub': ub, 'other': 'spectrum', 'valueunit': 'photlam'})
    for a, b in (('u3', 'fine'), ('u2', 'odd'), ('nonuni', 'nonuni4')):
        for op in ('add', 'multiply'):
            out.append({'a': a, 'b': b, 'op': op, 'sampling': 'min', 'ua': 'nm', 'ub': 'nm', 'other': 'spectrum', 'intvalues': True})
    # spline interpolation options: operands with exactly order+1 samples (the spline is the interpolating polynomial) and with more
    for method, pairs in (('quadratic', (('u3', 'u4'), ('u4', 'fine'), ('nonuni', 'nonuni4'), ('latefine', 'odd'))), ('cubic', (('u4', 'nonuni4'), ('nonuni4', 'latefine'), ('latefine', 'u4')))):
        for a, b in pairs:
            for op in ('add', 'multiply'):
                out.append({'a': a, 'b': b, 'op': op, 'sampling': 'min', 'ua': 'nm', 'ub': 'nm', 'other': 'spectrum', 'method': method})
    # a Blackbody (a Spectrum subclass whose sample() evaluates Planck's law anywhere) as an operand whose range does not cover the
    # other's: outside its own samples it is the fill value like any other spectrum (exp of a symbolic argument: concrete-only)
    for op in ('add', 'multiply'):
        for side in ('left', 'right'):
            out.append({'a': 'u5bb', 'b': 'u3', 'op': op, 'sampling': 'min', 'ua': 'nm', 'ub': 'nm', 'other': 'blackbody', 'side': side, '_concrete': 3})
    for c in out:
        if c['ua'] != 'nm' or c['ub'] != 'nm':
            # unit conversion in floating point can move a range edge by one ulp, so that the real code sees an edge sample as outside
            # the operand's range (A-REAL): the symbolic claim stands, the float comparison of translator validation is skipped here
            c['_novalidate'] = True
    return out, len(out), False


OPS = {'add': lambda x, y: x + y, 'subtract': lambda x, y: x - y, 'multiply': lambda x, y: x * y, 'divide': lambda x, y: x / y}


def _interp(W, grid, vals, q, fill):
    """linear interpolant of (grid, vals) at the rational point q; fill outside the closed range"""
    if q < grid[0] or q > grid[-1]:
        return fill
    for k in range(len(grid) - 1):
        if grid[k] <= q <= grid[k + 1]:
            t = Fraction(q - grid[k], grid[k + 1] - grid[k])
            return vals[k] * W.const(1 - t) + vals[k + 1] * W.const(t) if W.sym else vals[k] * float(1 - t) + vals[k + 1] * float(t)
    return fill


def _spline(W, grid, vals, q, fill, order):
    """spline interpolant of the requested order at q: the interpolating polynomial when there are exactly order+1 samples (exact Lagrange
    weights), otherwise scipy.interpolate.make_interp_spline's weights on the unit vectors (the documented 'spline interpolation')"""
    if q < grid[0] or q > grid[-1]:
        return fill
    n = len(grid)
    if n == order + 1:
        acc = 0
        for k in range(n):
            w = Fraction(1)
            for j in range(n):
                if j != k:
                    w *= Fraction(q - grid[j], grid[k] - grid[j])
            acc = acc + vals[k] * (W.const(w) if W.sym else float(w))
        return acc
    import scipy.interpolate as _si
    xs = [float(g) for g in grid]
    acc = 0
    for k in range(n):
        e = rnp.zeros(n)
        e[k] = 1.0
        w = float(_si.make_interp_spline(xs, e, k=order)(float(q)))
        acc = acc + vals[k] * w
    return acc


def run_blackbody(W, cfg):
    R = W.lentil.radiometry
    wide = [500.0, 510.0, 520.0, 530.0, 540.0]
    narrow = [510.0, 520.0, 530.0]
    v = [W.real(f'v{k}', lo=-1, hi=1) for k in range(5)]
    fill = W.real('fill', lo=-1, hi=1)
    T = 3000.0 + 4000.0 * abs(W.real('t', lo=0, hi=1))
    s = R.Spectrum(rnp.array(wide), rnp.array([float(x) for x in v]))
    bb = R.Blackbody(rnp.array(narrow), T)
    bbv = [float(x) for x in bb.value]
    scale = max(abs(x) for x in bbv)
    res = getattr(s, cfg['op'])(bb, fill_value=fill) if cfg['side'] == 'right' else getattr(bb, cfg['op'])(s, fill_value=fill)
    W.ob('grid = union at the finer sampling', res.wave, rnp.array(wide))
    want = []
    for k, g in enumerate(wide):
        b = bbv[narrow.index(g)] if g in narrow else fill
        want.append(OPS[cfg['op']](v[k], b) if cfg['side'] == 'right' else OPS[cfg['op']](b, v[k]))
    W.ob('a Blackbody operand is the fill value outside its own range (compared relative to its peak)', rnp.asarray(res.value, dtype=float) / scale, rnp.array(want) / scale)
    # the same blackbody described in micrometres (a finer-sampled operand so that it is interpolated between its own samples): same result
    fine = rnp.array([500.0, 505.0, 510.0, 515.0, 520.0, 525.0, 530.0, 535.0, 540.0])
    sf = R.Spectrum(fine, rnp.linspace(float(v[0]), float(v[4]), 9) + 2.0)
    bb_nm = R.Blackbody(rnp.array([500.0, 520.0, 540.0]), T, waveunit='nm')
    bb_um = R.Blackbody(rnp.array([0.500, 0.520, 0.540]), T, waveunit='um')
    W.ob_true('a copy of a Blackbody is a Blackbody', type(bb_nm.copy()) is R.Blackbody)
    r_nm = getattr(sf, cfg['op'])(bb_nm, fill_value=fill)
    r_um = getattr(sf, cfg['op'])(bb_um, fill_value=fill)
    # a density per micrometre is 1000 x the density per nanometre: the Blackbody values are rescaled by to(), the left operand's are unitless
    W.ob('Blackbody operand in micrometres: same grid', r_um.wave, r_nm.wave)
    sc2 = max(abs(float(x)) for x in bb_nm.value)
    if cfg['op'] == 'multiply':
        W.ob('Blackbody operand in micrometres: same physical product', rnp.asarray(r_um.value, dtype=float) / sc2, rnp.asarray(r_nm.value, dtype=float) / sc2)


def run(W, cfg):
    if cfg.get('other') == 'blackbody':
        return run_blackbody(W, cfg)
    R = W.mod('radiometry')
    ga = [Fraction(x) for x in GRIDS[cfg['a']]]
    gb = [Fraction(x) for x in GRIDS[cfg['b']]]
    ua, ub = cfg['ua'], cfg['ub']
    nz = cfg['op'] == 'divide'
    bounded = {'lo': -1, 'hi': 1} if cfg.get('method') else {}        # spline weights are floats: values of order one for the 1e-7 tolerance
    va = [W.real(f'va{k}', **bounded) for k in range(len(ga))]
    vb = [W.real(f'vb{k}', pos=nz, **bounded) for k in range(len(gb))]
    if cfg.get('intvalues'):
        # integer-valued spectra (e.g. a 0/1 filter curve given as ints): values are data, the fill value stays symbolic
        va = [(3 * k + 1) % 4 for k in range(len(ga))]
        vb = [(k + 1) % 3 for k in range(len(gb))]
    fill = W.real('fill', pos=nz, **bounded)
    num = (lambda q: q) if W.sym else float

    vu = cfg.get('valueunit')

    def mk(grid, vals, unit):
        if vu:
            # a per-wavelength density: the same physical spectrum has values scaled by the unit factor
            return R.Spectrum(W.array([W.const(g / TO_NM[unit]) for g in grid]), W.array([x * (W.const(TO_NM[unit]) if W.sym else float(TO_NM[unit])) for x in vals]),
                              waveunit=unit, valueunit=vu)
        if cfg.get('intvalues'):
            return R.Spectrum(W.array([W.const(g / TO_NM[unit]) for g in grid]), rnp.array(list(vals), dtype=int), waveunit=unit)
        return R.Spectrum(W.array([W.const(g / TO_NM[unit]) for g in grid]), W.array(list(vals)), waveunit=unit)

    sa = mk(ga, va, ua)
    if cfg['other'] != 'spectrum':
        if cfg['other'] == 'scalar':
            o = W.real('k', nz=True) if cfg['op'] != 'power' else 2
            ref = (lambda x: x ** 2) if cfg['op'] == 'power' else (lambda x: OPS[cfg['op']](x, o))
            res = getattr(sa, cfg['op'])(o)
            W.ob('scalar operand acts element-wise', res.value, W.array([ref(x) for x in va]))
        else:
            if cfg['op'] == 'power':
                o = W.array([2, 3, 2])
                res = sa.power(o)
                W.ob('vector operand acts element-wise', res.value, W.array([va[0] ** 2, va[1] ** 3, va[2] ** 2]))
            else:
                ov = [W.real(f'k{i}', nz=True) for i in range(len(ga))]
                res = getattr(sa, cfg['op'])(W.array(ov))
                W.ob('vector operand acts element-wise', res.value, W.array([OPS[cfg['op']](x, y) for x, y in zip(va, ov)]))
        W.ob('grid unchanged', res.wave, sa.wave)
        W.ob_true('result is a new object', not W.same(res, sa))
        W.ob('operand values untouched', sa.value, W.array(va))
        return
    sb = mk(gb, vb, ub)
    method = cfg.get('method', 'linear')
    res = getattr(sa, cfg['op'])(sb, sampling=cfg['sampling'], fill_value=fill, **({'method': method} if method != 'linear' else {}))
    # ---- reference (in nanometres)
    lo, hi = min(ga[0], gb[0]), max(ga[-1], gb[-1])
    da = min(ga[k + 1] - ga[k] for k in range(len(ga) - 1))
    db = min(gb[k + 1] - gb[k] for k in range(len(gb) - 1))
    sampling = cfg['sampling']
    step_req = {'min': min(da, db), 'left': da, 'right': db}.get(sampling, None)
    if step_req is None:
        step_req = Fraction(sampling) * TO_NM[ua]          # a float sampling is in the unit of the operands
    n = -((lo - hi) // step_req)                            # ceil((hi-lo)/step)
    n = int(n)
    if (ua != 'nm' or ub != 'nm') and (hi - lo) % step_req == 0:
        return          # rounding tie of ceil() in floating point for non-integer grids: excluded (A-REAL)
    grid = [lo + (hi - lo) * Fraction(k, n) for k in range(n + 1)] if n > 0 else [lo]
    W.ob_true('result is a new spectrum', not W.same(res, sa) and not W.same(res, sb))
    W.ob_true('result carries the first operand\'s unit', res.waveunit == ua)
    W.ob('uniform grid over the union at no more than the requested sampling', res.wave, W.array([W.const(g / TO_NM[ua]) for g in grid]))
    if vu:
        # values are per unit of the result's wavelength unit (ua): densities per nm times the nm-per-ua factor
        fa = W.const(TO_NM[ua]) if W.sym else float(TO_NM[ua])
        want = [OPS[cfg['op']](_interp(W, ga, [x * fa for x in va], q, fill), _interp(W, gb, [x * fa for x in vb], q, fill)) for q in grid]
    elif method != 'linear':
        order = {'quadratic': 2, 'cubic': 3}[method]
        want = [OPS[cfg['op']](_spline(W, ga, va, q, fill, order), _spline(W, gb, vb, q, fill, order)) for q in grid]
        W.float_constants()
        for k in range(len(grid)):
            W.ob_close(f'value = op(operands interpolated with the requested spline order, fill outside) [{k}]', res.value[k], want[k], 1e-7)
        return
    else:
        want = [OPS[cfg['op']](_interp(W, ga, va, q, fill), _interp(W, gb, vb, q, fill)) for q in grid]
    W.ob('value = op(interpolated operands, fill outside)', res.value, W.array(want))
    if cfg['op'] in ('add', 'multiply') and (ua == ub or (isinstance(sampling, str) and not vu)):
        rev = getattr(sb, cfg['op'])(sa, sampling={'left': 'right', 'right': 'left'}.get(sampling, sampling), fill_value=fill)
        W.ob('commutative (values)', rev.value, res.value)
    # both operands still describe the same physical spectrum
    for nm, s, g, v, u in (('a', sa, ga, va, ua), ('b', sb, gb, vb, ub)):
        fac = TO_NM[s.waveunit]
        W.ob(f'operand {nm}: same physical wavelengths afterwards', s.wave * (W.const(fac) if W.sym else float(fac)), W.array([W.const(x) for x in g]))
        if vu:
            fu = W.const(TO_NM[s.waveunit]) if W.sym else float(TO_NM[s.waveunit])
            W.ob(f'operand {nm}: same values afterwards', s.value, W.array([x * fu for x in v]))
        else:
            W.ob(f'operand {nm}: same values afterwards', s.value, W.array(list(v)))
    if method == 'linear':
        # an ndarray on the left of a result of an operation: still a Spectrum, element-wise on the result's grid (numpy defers to Spectrum)
        def left_array_ok():
            import numpy as _np
            vec = _np.arange(1, len(res.wave) + 1, dtype=float)
            prod = vec * res
            return isinstance(prod, type(res)) and bool(_np.allclose(_np.asarray(prod.value, dtype=float), _np.asarray(res.value, dtype=float) * vec, rtol=1e-12, atol=0)) \
                and isinstance(2 * res, type(res))
        W.ob_concrete('ndarray * (result of an operation) is a Spectrum with element-wise values', left_array_ok)
    if ua == 'nm' and ub == 'nm' and not vu and not cfg.get('intvalues'):
        # the operands' values edited through the setter (same grids), then the operation again: the new values are used
        va2 = [x * 2 + 1 for x in va]
        vb2 = [x * 3 + (2 if nz else -1) for x in vb]
        sa.value = W.array(list(va2))
        sb.value = W.array(list(vb2))
        res2 = getattr(sa, cfg['op'])(sb, sampling=cfg['sampling'], fill_value=fill)
        want2 = [OPS[cfg['op']](_interp(W, ga, va2, q, fill), _interp(W, gb, vb2, q, fill)) for q in grid]
        W.ob('after the values were edited: value = op(interpolated new values, fill outside)', res2.value, W.array(want2))


HARNESSES = {'binop': {'configs': configs, 'run': run, 'small': 4}}

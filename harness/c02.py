"""C02 - far-field propagation puts the Fraunhofer field on the right output samples."""
import itertools, random
import numpy as rnp
from specs import optics

EXPLANATION = ('C02: Pupil/Image x Wavefront -> propagate_dft -> Wavefront.field on symbolic amplitude, OPD, wavelength, focal length, '
               'per-axis input and output pixel scales; concrete array shapes, supports, windows, masks, oversampling.')
BOUNDS = {
    'quick': 'plane arrays 1..3 per axis incl. non-square; supports = sampled non-empty subsets, whole or split into 2..3 segment masks (several input fields); output shape 1..3, prop_shape <= shape, '
             'oversample 1..2, output mask none / rectangle / sparse; scalar or per-axis scales; both directions; 900 sampled + fixed configs',
    'thorough': 'plane arrays 1..4; output 1..4; oversample 1..3; 2500 sampled + fixed configs',
}
ASSUMPTIONS = ['wavelength, focal length, pixel scales > 0; amplitude and OPD arbitrary reals',
               'output mask has the oversampled output shape (a mask of another shape is not in the statement)']
STUBS = []


def _supports(nr, nc, rng, k):
    cells = [(r, c) for r in range(nr) for c in range(nc)]
    out = [cells]                                   # full
    for c in cells:
        out.append([c])                             # one sample (centre and off-centre)
    for _ in range(k):
        s = [c for c in cells if rng.random() < 0.5]
        if s:
            out.append(s)
    return out


def _masks(R, C, rng, k):
    out = [None]
    rects = []
    for r0 in range(R):
        for r1 in range(r0, R):
            for c0 in range(C):
                for c1 in range(c0, C):
                    rects.append([[1 if r0 <= i <= r1 and c0 <= j <= c1 else 0 for j in range(C)] for i in range(R)])
    rng.shuffle(rects)
    out += rects[:k]
    for _ in range(k):
        m = [[1 if rng.random() < 0.35 else 0 for j in range(C)] for i in range(R)]
        if any(any(r) for r in m):
            out.append(m)
    return out


def configs(tier, seed):
    rng = random.Random(1000 + seed)
    top = 3 if tier == 'quick' else 4
    osmax = 2 if tier == 'quick' else 3
    want = 900 if tier == 'quick' else 2500
    pool = []
    for nr, nc in itertools.product(range(1, top + 1), repeat=2):
        for sup in _supports(nr, nc, rng, 3):
            for Sr, Sc in itertools.product(range(1, top + 1), repeat=2):
                for os in range(1, osmax + 1):
                    for Pr in range(1, Sr + 1):
                        for Pc in range(1, Sc + 1):
                            pool.append((nr, nc, sup, Sr, Sc, os, Pr, Pc))
    total = len(pool)
    rng.shuffle(pool)
    out = []
    for (nr, nc, sup, Sr, Sc, os, Pr, Pc) in pool[:want]:
        masks = _masks(Sr * os, Sc * os, rng, 1)
        mask = rng.choice(masks) if rng.random() < 0.5 else None
        out.append({'n': [nr, nc], 'support': [list(x) for x in sup], 'shape': [Sr, Sc], 'prop': [Pr, Pc], 'os': os, 'mask': mask,
                    'scales': rng.choice(['axis', 'axis', 'scalar']), 'dir': rng.choice(['pupil', 'pupil', 'image']),
                    'defaults': False})
        if mask is not None and rng.random() < 0.4:
            out[-1]['soft'] = True          # an antialiased (fractional-valued) output mask: its support still chooses the window
        if len(sup) >= 2 and rng.random() < 0.4:
            # the same aperture as k per-segment masks (several input fields): the coherent sum is unchanged
            k = rng.randint(2, min(3, len(sup)))
            lab = [i % k for i in range(len(sup))]
            rng.shuffle(lab)
            out[-1]['segments'] = lab
        if out[-1]['dir'] == 'pupil' and rng.random() < 0.2:
            out[-1]['tilt'] = True          # a Tilt plane after the pupil (sub-sample angles): the same field as the same ramp in the OPD
    # fixed regression set: every window option on one non-square geometry, default shape / prop_shape arguments
    fixed = [
        {'n': [3, 2], 'support': [[0, 0], [1, 1], [2, 0]], 'shape': [2, 3], 'prop': [2, 3], 'os': 2, 'mask': None, 'scales': 'axis', 'dir': 'pupil', 'defaults': True},
        {'n': [2, 3], 'support': [[0, 2], [1, 0]], 'shape': [3, 3], 'prop': [2, 1], 'os': 1, 'mask': None, 'scales': 'axis', 'dir': 'pupil', 'defaults': False},
        {'n': [3, 3], 'support': [[0, 0]], 'shape': [2, 2], 'prop': [2, 2], 'os': 2, 'mask': None, 'scales': 'axis', 'dir': 'pupil', 'defaults': False},
        {'n': [2, 3], 'support': [[0, 0], [0, 1], [1, 1], [1, 2]], 'segments': [0, 0, 1, 1], 'shape': [2, 3], 'prop': [2, 3], 'os': 2, 'mask': None, 'scales': 'axis', 'dir': 'pupil', 'defaults': False},
        {'n': [3, 2], 'support': [[0, 0], [1, 0], [1, 1], [2, 1]], 'segments': [0, 1, 0, 1], 'shape': [3, 2], 'prop': [2, 2], 'os': 1, 'mask': None, 'scales': 'scalar', 'dir': 'image', 'defaults': False},
        {'n': [3, 3], 'support': [[1, 1]], 'shape': [2, 2], 'prop': [1, 2], 'os': 1, 'mask': [[0, 1], [0, 0]], 'scales': 'scalar', 'dir': 'image', 'defaults': False},
        {'n': [2, 2], 'support': [[0, 0], [0, 1], [1, 0], [1, 1]], 'shape': [3, 2], 'prop': [3, 2], 'os': 2,
         'mask': [[0, 0, 0, 0], [0, 1, 0, 0], [0, 0, 0, 1], [0, 0, 0, 0], [0, 0, 0, 0], [0, 0, 0, 0]], 'scales': 'axis', 'dir': 'pupil', 'defaults': False},
    ]
    fixed += [dict(fixed[1], tilt=True), dict(fixed[3], tilt=True), dict(fixed[0], tilt=True)]
    out = fixed + out
    return out, total + len(fixed), False


def run(W, cfg):
    lt = W.lentil
    nr, nc = cfg['n']
    os = cfg['os']
    S = (cfg['shape'][0] * os, cfg['shape'][1] * os)
    P = (cfg['prop'][0] * os, cfg['prop'][1] * os)
    amp = W.reals('a', (nr, nc))
    opd = W.reals('o', (nr, nc))
    pmask = rnp.zeros((nr, nc), dtype=int)
    for r, c in cfg['support']:
        pmask[r, c] = 1
    if cfg.get('segments'):
        k = max(cfg['segments']) + 1
        pmask = rnp.zeros((k, nr, nc), dtype=int)
        for (r, c), g in zip(cfg['support'], cfg['segments']):
            pmask[g, r, c] = 1
    lam = W.real('lam', pos=True)
    f = W.real('f', pos=True)
    if cfg['scales'] == 'scalar':
        dxs = W.real('dx', pos=True)
        dus = W.real('du', pos=True)
        dx, du = (dxs, dxs), (dus, dus)
        dx_arg, du_arg = dxs, dus
    else:
        dx = (W.real('dxr', pos=True), W.real('dxc', pos=True))
        du = (W.real('dur', pos=True), W.real('duc', pos=True))
        dx_arg, du_arg = dx, du
    if cfg['dir'] == 'pupil':
        plane = lt.Pupil(amplitude=amp, opd=opd, mask=pmask.copy(), pixelscale=dx_arg, focal_length=f)
        w = lt.Wavefront(lam)
    else:
        plane = lt.Image(amplitude=amp, opd=opd, mask=pmask.copy(), pixelscale=dx_arg)
        w = lt.Wavefront(lam, focal_length=f, ptype=lt.image)
    w = w * plane
    omask = None if cfg['mask'] is None else rnp.array(cfg['mask'])
    if omask is not None and cfg.get('soft'):
        omask = omask * rnp.where((rnp.add.outer(rnp.arange(omask.shape[0]), rnp.arange(omask.shape[1])) % 2) == 0, 0.5, 0.25)
    kw = {}
    if cfg.get('defaults') and cfg['prop'] == cfg['shape']:
        kw = {'shape': tuple(cfg['shape'])}           # prop_shape defaults to shape
    else:
        kw = {'shape': tuple(cfg['shape']), 'prop_shape': tuple(cfg['prop'])}
    out = lt.propagate_dft(w, pixelscale=du_arg, oversample=os, mask=omask, **kw)
    # ---- reference
    wr = optics.centre_window(S[0], P[0])
    wc = optics.centre_window(S[1], P[1])
    bb = (0, S[0] - 1, 0, S[1] - 1) if omask is None else optics.bbox(cfg['mask'])

    def inside(i, j):
        return wr[0] <= i <= wr[1] and wc[0] <= j <= wc[1] and bb[0] <= i <= bb[1] and bb[2] <= j <= bb[3]

    samples = [((r, c), optics.phasor(W, amp[r, c], opd[r, c], lam)) for r, c in cfg['support']]
    want = optics.fraunhofer(W, samples, (nr, nc), lam, f, dx, du, os, S, inside)
    W.ob('field', out.field, W.array(want) if not W.sym else W.array(want))
    # the same wavefront propagated a second time (its fields are the caller's: untouched by the first propagation), and the same mask
    # array refilled in place with another window
    again = lt.propagate_dft(w, pixelscale=du_arg, oversample=os, mask=omask, **kw)
    W.ob('field, second propagation of the same wavefront', again.field, out.field)
    if omask is not None:
        flipped = [row[::-1] for row in cfg['mask'][::-1]]
        scale_ = omask.max() if cfg.get('soft') else 1
        omask[...] = rnp.array(flipped) * scale_
        bb2 = optics.bbox(flipped)
        want2 = optics.fraunhofer(W, samples, (nr, nc), lam, f, dx, du, os, S,
                                  lambda i, j: wr[0] <= i <= wr[1] and wc[0] <= j <= wc[1] and bb2[0] <= i <= bb2[1] and bb2[2] <= j <= bb2[3])
        third = lt.propagate_dft(w, pixelscale=du_arg, oversample=os, mask=omask, **kw)
        W.ob('field, the mask array refilled in place with another window', third.field, W.array(want2))
    if cfg.get('tilt') and cfg['dir'] == 'pupil':
        from fractions import Fraction as _Ft
        # a third of a sample along the rows, two fifths against the columns: below half a sample at every oversampling, so every
        # field keeps the undisplaced window; per-axis sampling makes the row and column pitches different numbers
        angs = (W.const(_Ft(1, 3)) * du[0] / (f * os), -(W.const(_Ft(-2, 5)) * du[1]) / (f * os))
        ramp = W.zeros((nr, nc))
        for r in range(nr):
            for c in range(nc):
                ramp[r, c] = angs[0] * ((r - nr // 2) * dx[0]) - angs[1] * ((c - nc // 2) * dx[1])
        ramped = lt.Pupil(amplitude=amp, opd=opd + ramp, mask=pmask.copy(), pixelscale=dx_arg, focal_length=f)
        out_r = lt.propagate_dft(lt.Wavefront(lam) * ramped, pixelscale=du_arg, oversample=os, mask=(None if cfg['mask'] is None else rnp.array(cfg['mask'])), **kw)
        out_t = lt.propagate_dft(w * lt.Tilt(x=angs[0], y=angs[1]), pixelscale=du_arg, oversample=os, mask=(None if cfg['mask'] is None else rnp.array(cfg['mask'])), **kw)
        W.ob('a Tilt plane after the pupil = the same ramp in the OPD', out_t.field, out_r.field)
    # the array handed out by .field is the caller's to edit: a later read of the wavefront is unaffected
    mine = out.field
    first_read = mine.copy()
    mine *= 2
    W.ob('field read again after the caller scaled the array it was given', out.field, first_read)
    W.ob('wavelength', out.wavelength, lam)
    W.ob('focal_length', out.focal_length, f)
    W.ob('pixelscale', [out.pixelscale[0], out.pixelscale[1]], [du[0] / os, du[1] / os])
    W.ob_true('shape', tuple(int(x) for x in out.shape) == S)
    W.ob_true('ptype', out.ptype == (lt.image if cfg['dir'] == 'pupil' else lt.pupil))


HARNESSES = {'propagate_dft_value': {'configs': configs, 'run': run, 'small': 4}}

"""C05 - propagation conserves energy (DFT and FFT propagators, nested windows, normalize_power)."""
import itertools, random
from fractions import Fraction
import numpy as rnp
from specs import optics

EXPLANATION = ('C05: total intensity over one full period equals the input power, for propagate_dft and propagate_fft, with symbolic '
               'amplitude/OPD/wavelength/focal length/input pixel scale and the output pixel scale tied to them so that 1/alpha = N exactly; '
               'roots of unity are atoms constrained by linear theorems (subgroup/coset sums vanish) and z3 decides the Parseval identity.')
BOUNDS = {
    'quick': 'periods N_r, N_c in 1..5 independently; pupil <= min(3, N) per axis, whole or as two equal-shape segments; oversample in {1,2,3} dividing N; nested windows for pupils <= 2x2; three tilted segments with bridging 2x2 windows on a 2x8 period (4 storage orders, sampled points); normalize_power on <= 3x3, two targets in a row; the full-period transform after seven other samplings / shifts / offsets of the same shapes (concrete-only)',
    'thorough': 'periods up to 8 per axis; pupil <= min(4, N); all nested centred windows',
}
ASSUMPTIONS = ['1/alpha is an integer N >= pupil size on each axis (the property\'s commensurate regime); sum |a|^2 > 0 for normalize_power',
               'roots of unity e(k/L): atoms (c_k, s_k) with c^2+s^2=1, conjugate symmetry, and vanishing subgroup/coset sums (theorems, trusted)']
STUBS = []


def cfg_full(tier, seed):
    top, ptop = (5, 3) if tier == 'quick' else (8, 4)
    out = []
    for Nr, Nc in itertools.product(range(1, top + 1), repeat=2):
        for os in (1, 2, 3):
            if (Nr % os or Nc % os) and not (Nr >= 2 and Nc >= 2 and Nr * Nc <= 12):
                continue
            for nr, nc in {(min(ptop, Nr), min(ptop, Nc)), (max(1, min(ptop, Nr) - 1), min(ptop, Nc)), (1, min(2, Nc))}:
                if tier == 'quick' and (Nr * Nc > 16 and (nr * nc > 6)):
                    continue
                for method in ('dft', 'fft', 'fft-scratch'):
                    if method != 'dft' and (Nr < 2 or Nc < 2):
                        continue
                    if (Nr % os or Nc % os) and method == 'dft':
                        continue            # the DFT propagator's output shape is shape*oversample: a full period needs N divisible by it
                    out.append({'N': [Nr, Nc], 'n': [nr, nc], 'os': os, 'method': method})
                    if nr >= 2 and nc >= 2 and Nr * Nc <= (16 if tier == 'quick' else 36):
                        # two interleaved segments whose bounding boxes coincide (fields that overlap as arrays), for every propagator
                        out.append({'N': [Nr, Nc], 'n': [nr, nc], 'os': os, 'method': method, 'seg': 'diag'})
                    # the same aperture as two equal-shape segment masks (several input fields at non-zero offsets)
                    if method == 'dft' and Nr * Nc <= (16 if tier == 'quick' else 36):
                        if nc % 2 == 0:
                            out.append({'N': [Nr, Nc], 'n': [nr, nc], 'os': os, 'method': method, 'seg': 'cols'})
                        if nr % 2 == 0:
                            out.append({'N': [Nr, Nc], 'n': [nr, nc], 'os': os, 'method': method, 'seg': 'rows'})
    return out, len(out), True


def _setup(W, cfg):
    lt = W.lentil
    nr, nc = cfg['n']
    Nr, Nc = cfg['N']
    os = cfg['os']
    A = W.reals('a', (nr, nc))
    O = W.reals('o', (nr, nc))
    lam = W.real('lam', pos=True)
    f = W.real('f', pos=True)
    dx = (W.real('dxr', pos=True), W.real('dxc', pos=True))
    # output pixel scale such that alpha = dx*du/(lam*f*os) = 1/N on each axis
    du = (lam * f * os / (Nr * dx[0]), lam * f * os / (Nc * dx[1]))
    mask = rnp.ones((nr, nc), dtype=int)
    if cfg.get('seg'):
        mask = rnp.zeros((2, nr, nc), dtype=int)
        if cfg['seg'] == 'diag':
            rr, cc = rnp.mgrid[0:nr, 0:nc]
            mask[0] = (rr + cc) % 2 == 0
            mask[1] = (rr + cc) % 2 == 1
        elif cfg['seg'] == 'cols':
            mask[0, :, :nc // 2] = 1
            mask[1, :, nc // 2:] = 1
        else:
            mask[0, :nr // 2, :] = 1
            mask[1, nr // 2:, :] = 1
    pupil = lt.Pupil(amplitude=A, opd=O, pixelscale=dx, focal_length=f, mask=mask)
    w = lt.Wavefront(lam) * pupil
    power = W.sum(A[i, j] * A[i, j] for i in range(nr) for j in range(nc))
    return lt, w, du, power, A


def run_full(W, cfg):
    lt, w, du, power, A = _setup(W, cfg)
    Nr, Nc = cfg['N']
    os = cfg['os']
    shape = (Nr // os, Nc // os)
    if Nr % os or Nc % os:
        shape = None                        # FFT propagators: the default output is the full grid, whatever the oversampling
    if cfg['method'] == 'dft':
        o = lt.propagate_dft(w, pixelscale=du, shape=shape, oversample=os)
    elif cfg['method'] == 'fft':
        o = lt.propagate_fft(w, pixelscale=du, shape=shape, oversample=os)
    else:
        scratch = W.complexes('scr', (Nr + 1, Nc + 2))
        o = lt.propagate_fft(w, pixelscale=du, shape=shape, oversample=os, scratch=scratch)
        # a second wavefront through the same buffer (the next wavelength of a broadband loop) before the first result is used
        w_b = lt.Wavefront(w.wavelength) * lt.Pupil(amplitude=A * 3 + 1, pixelscale=w.pixelscale, focal_length=w.focal_length, mask=rnp.ones(A.shape, dtype=int))
        lt.propagate_fft(w_b, pixelscale=du, shape=shape, oversample=os, scratch=scratch)
    inten = o.intensity
    W.ob_true('shape', tuple(int(x) for x in inten.shape) == (Nr, Nc))
    total = W.sum(inten[i, j] for i in range(Nr) for j in range(Nc))
    W.ob('total intensity = input power', total, power)
    wt = W.real('weight', pos=True)
    acc = o.insert(W.zeros((Nr, Nc)), weight=wt)
    W.ob('accumulated with a weight: total = weight x input power', W.sum(acc[i, j] for i in range(Nr) for j in range(Nc)), wt * power)
    again = o.intensity                  # forming the image a second time from the same wavefront
    if cfg['method'] == 'dft' and not cfg.get('seg'):
        nr, nc = cfg['n']

        def after_other_samplings():
            # the transform of one geometry after transforms of the same shapes with another sampling on one axis only, another
            # shift, another offset (state kept between calls must not leak from one sampling into the next): concrete-only
            import numpy as _np
            L = W.lentil
            rng = _np.random.default_rng(11)
            g = rng.normal(size=(nr, nc)) + 1j * rng.normal(size=(nr, nc))
            p0 = float(_np.sum(_np.abs(g) ** 2))
            ar, ac = 1.0 / Nr, 1.0 / Nc
            for primer in ({'alpha': (ar, ac * 0.75)}, {'alpha': (ar * 0.75, ac)}, {'alpha': (ar, ac), 'shift': (0.5, 0)},
                           {'alpha': (ar, ac), 'shift': (0, 0.5)}, {'alpha': (ar, ac), 'offset': (1, 0)}, {'alpha': (ar, ac), 'offset': (0, 1)},
                           {'alpha': (ac, ar)}):
                L.fourier.dft2(g, shape=(Nr, Nc), **primer)
                F = L.fourier.dft2(g, (ar, ac), shape=(Nr, Nc))
                if abs(float(_np.sum(_np.abs(F) ** 2)) - p0) > 1e-9 * p0:
                    return False
            # and through the propagator: per-axis output sampling changed on one axis, then the full period
            amp = rng.uniform(0.5, 1.5, (nr, nc))
            lam_, f_, dx_ = 5e-7, 2.0, (1e-3, 1.5e-3)
            du_ = (lam_ * f_ * os / (Nr * dx_[0]), lam_ * f_ * os / (Nc * dx_[1]))
            pw = float(_np.sum(amp ** 2))
            for scale in ((1, 1.25), (1.25, 1), (1, 1)):
                wv = L.Wavefront(lam_) * L.Pupil(amplitude=amp, pixelscale=dx_, focal_length=f_)
                L.propagate_dft(wv, pixelscale=(du_[0] * scale[0], du_[1] * scale[1]), shape=shape, oversample=os)
                wv = L.Wavefront(lam_) * L.Pupil(amplitude=amp, pixelscale=dx_, focal_length=f_)
                tot = float(_np.sum(L.propagate_dft(wv, pixelscale=du_, shape=shape, oversample=os).intensity))
                if abs(tot - pw) > 1e-9 * pw:
                    return False
            return True
        W.ob_concrete('full period after transforms of the same shapes with another sampling / shift / offset: total = input power', after_other_samplings)
    W.ob('total intensity, read a second time', W.sum(again[i, j] for i in range(Nr) for j in range(Nc)), power)


def cfg_windows(tier, seed):
    out = []
    top = 4 if tier == 'quick' else 6
    for Nr, Nc in itertools.product(range(2, top + 1), repeat=2):
        for nr, nc in ((1, 2), (2, 2), (2, 1)):
            if nr > Nr or nc > Nc:
                continue
            out.append({'N': [Nr, Nc], 'n': [nr, nc], 'os': 1})
            if Nr % 2 == 0 and Nc % 2 == 0:
                out.append({'N': [Nr, Nc], 'n': [nr, nc], 'os': 2})           # windows given in pixels, evaluated in oversampled samples
    # three tilted segments whose small windows land side by side: two that do not touch and one that bridges them, in every storage order
    for order in ([-1, 1, 0], [1, -1, 0], [-1, 0, 1], [0, -1, 1]):
        out.append({'N': [2, 8], 'n': [2, 3], 'os': 1, 'bridge': order, '_concrete': 4})
    return out, len(out), True


def run_bridge(W, cfg):
    from fractions import Fraction as _F
    lt = W.lentil
    nr, nc = cfg['n']
    Nr, Nc = cfg['N']
    A = W.reals('a', (nr, nc))
    O = W.reals('o', (nr, nc))
    lam = W.real('lam', pos=True)
    f = W.real('f', pos=True)
    dx = (W.real('dxr', pos=True), W.real('dxc', pos=True))
    du = (lam * f / (Nr * dx[0]), lam * f / (Nc * dx[1]))
    mask = rnp.zeros((nc, nr, nc), dtype=int)
    for g in range(nc):
        mask[g, :, g] = 1
    pupil = lt.Pupil(amplitude=A, opd=O, pixelscale=dx, focal_length=f, mask=mask)
    # whole samples plus a third, away from the rounding ties of the window placement
    subs = [_F(s) + (_F(1, 3) if s >= 0 else _F(-1, 3)) for s in cfg['bridge']]
    pupil.tilt = [lt.Tilt(x=W.const(_F(0)) * du[0] / f, y=-(W.const(k) * du[1]) / f) for k in subs]
    w = lt.Wavefront(lam) * pupil
    o = lt.propagate_dft(w, pixelscale=du, shape=(Nr, Nc), prop_shape=(2, 2), oversample=1)
    inten = o.intensity
    fld = o.field
    W.ob('bridging windows: intensity = |coherent field|^2', inten, W.array([[W.abs2(fld[i, j]) for j in range(Nc)] for i in range(Nr)]))
    W.ob_true('bridging windows: three output fields with different windows', len({tuple(int(v) for v in fd.offset) for fd in o.data}) == 3)


def run_windows(W, cfg):
    """nested centred windows W1 < W2 < full: every sample is window independent (so sums are monotone once samples are >= 0)."""
    if cfg.get('bridge'):
        return run_bridge(W, cfg)
    lt, w, du, power, A = _setup(W, cfg)
    Nr, Nc = cfg['N']
    osw = cfg['os']
    if osw > 1:
        full = lt.propagate_dft(w, pixelscale=du, shape=(Nr // osw, Nc // osw), oversample=osw).intensity
        for Pr in range(1, Nr // osw + 1):
            for Pc in range(1, Nc // osw + 1):
                part = lt.propagate_dft(w, pixelscale=du, shape=(Nr // osw, Nc // osw), prop_shape=(Pr, Pc), oversample=osw).intensity
                wr = optics.centre_window(Nr, Pr * osw)
                wc = optics.centre_window(Nc, Pc * osw)
                want = [[full[i, j] if (wr[0] <= i <= wr[1] and wc[0] <= j <= wc[1]) else 0 for j in range(Nc)] for i in range(Nr)]
                W.ob(f'window of {Pr}x{Pc} pixels at oversample {osw} = full-period samples inside, 0 outside', part, W.array(want))
        return
    full = lt.propagate_dft(w, pixelscale=du, shape=(Nr, Nc), oversample=1).intensity
    for Pr in range(1, Nr + 1):
        for Pc in range(1, Nc + 1):
            if (Pr, Pc) == (Nr, Nc):
                continue
            part = lt.propagate_dft(w, pixelscale=du, shape=(Nr, Nc), prop_shape=(Pr, Pc), oversample=1).intensity
            wr = optics.centre_window(Nr, Pr)
            wc = optics.centre_window(Nc, Pc)
            want = [[full[i, j] if (wr[0] <= i <= wr[1] and wc[0] <= j <= wc[1]) else 0 for j in range(Nc)] for i in range(Nr)]
            W.ob(f'window {Pr}x{Pc} samples = full-period samples inside, 0 outside', part, W.array(want))
    # windows chosen by an output mask (its bounding box), nested or not, of either parity on either grid parity:
    # the same samples inside, zero outside
    rects = [(r0, r1, c0, c1) for r0 in range(Nr) for r1 in range(r0, Nr) for c0 in range(Nc) for c1 in range(c0, Nc)
             if ((r1 - r0 + 1) % 2 == 0 or (c1 - c0 + 1) % 2 == 0) and (r1 - r0 + 1, c1 - c0 + 1) != (Nr, Nc)]
    for (r0, r1, c0, c1) in rects[::max(1, len(rects) // 10)]:
        om = rnp.zeros((Nr, Nc), dtype=int)
        om[r0:r1 + 1, c0:c1 + 1] = 1
        part = lt.propagate_dft(w, pixelscale=du, shape=(Nr, Nc), oversample=1, mask=om).intensity
        want = [[full[i, j] if (r0 <= i <= r1 and c0 <= j <= c1) else 0 for j in range(Nc)] for i in range(Nr)]
        W.ob(f'mask window rows {r0}..{r1} cols {c0}..{c1} = full-period samples inside, 0 outside', part, W.array(want))
    if Nr >= 3 and Nc >= 3:
        # a mask with a dead row and a dead column inside its bounding box: the window is still the bounding box
        om = rnp.ones((Nr, Nc), dtype=int)
        om[1, :] = 0
        om[:, 1] = 0
        part = lt.propagate_dft(w, pixelscale=du, shape=(Nr, Nc), oversample=1, mask=om).intensity
        W.ob('mask with a dead row and column: the window is its bounding box', part, full)
    # non-negativity: every sample is |field|^2 (C07 discharges intensity = |field|^2); the lemma x^2 + y^2 >= 0 is discharged here
    x, y = W.real('lemma_x'), W.real('lemma_y')
    W.ob_true('lemma: re^2 + im^2 >= 0', x * x + y * y >= 0)
    fld = lt.propagate_dft(w, pixelscale=du, shape=(Nr, Nc), oversample=1).field
    W.ob('intensity = |field|^2', full, W.array([[W.abs2(fld[i, j]) for j in range(Nc)] for i in range(Nr)]))


def cfg_norm(tier, seed):
    shapes = [(1, 1), (1, 2), (2, 2), (2, 3), (3, 3)] if tier == 'quick' else [(1, 1), (1, 2), (2, 2), (2, 3), (3, 3), (3, 4), (4, 4)]
    out = [{'shape': list(s), 'kind': k} for s in shapes for k in ('complex', 'real')]
    out.append({'shape': [2, 2], 'kind': 'imaged'})
    return out, len(out), True


def run_norm(W, cfg):
    lt = W.lentil
    shp = tuple(cfg['shape'])
    p = W.real('p', pos=True)
    if cfg['kind'] == 'imaged':
        # an amplitude passed through the normaliser with target p images to total p (one full period)
        A = W.reals('a', shp)
        P = W.sum(A[i, j] * A[i, j] for i in range(shp[0]) for j in range(shp[1]))
        W.assume(P > 0)
        An = lt.normalize_power(A, p)
        lam, f = W.real('lam', pos=True), W.real('f', pos=True)
        dx = (W.real('dxr', pos=True), W.real('dxc', pos=True))
        N = (3, 2)
        du = (lam * f / (N[0] * dx[0]), lam * f / (N[1] * dx[1]))
        w = lt.Wavefront(lam) * lt.Pupil(amplitude=An, pixelscale=dx, focal_length=f, mask=rnp.ones(shp, dtype=int))
        inten = lt.propagate_dft(w, pixelscale=du, shape=N, oversample=1).intensity
        W.ob('image total = p', W.sum(inten[i, j] for i in range(N[0]) for j in range(N[1])), p)
        return
    a = W.complexes('a', shp) if cfg['kind'] == 'complex' else W.reals('a', shp)
    P = W.sum(W.abs2(a[i, j]) for i in range(shp[0]) for j in range(shp[1]))
    if W.sym:
        P = P.as_real() if hasattr(P, 'as_real') else P
    W.assume(P > 0)
    a0 = a.copy()
    out = lt.normalize_power(a, p)
    tot = W.sum(W.abs2(out[i, j]) for i in range(shp[0]) for j in range(shp[1]))
    W.ob('power = p', tot, p)
    # the same amplitude normalised to a second target: the first result and the caller's array stay what they were
    q = W.real('q', pos=True)
    out2 = lt.normalize_power(a, q)
    W.ob('second target: power = q', W.sum(W.abs2(out2[i, j]) for i in range(shp[0]) for j in range(shp[1])), q)
    W.ob('first result still has power p', W.sum(W.abs2(out[i, j]) for i in range(shp[0]) for j in range(shp[1])), p)
    W.ob('the caller\'s amplitude is untouched', a, a0)


HARNESSES = {
    'full_period': {'configs': cfg_full, 'run': run_full, 'small': 4},
    'windows': {'configs': cfg_windows, 'run': run_windows, 'small': 4},
    'normalize_power': {'configs': cfg_norm, 'run': run_norm, 'small': 4},
}

"""C04 - tilt carried as metadata is optically identical to tilt in the OPD."""
import itertools, random
import numpy as rnp
from specs import optics

EXPLANATION = ('C04: Field.shift algebra on symbolic tilt elements (angular and first-order dispersive) in every order; Tilt plane / '
               'Wavefront(tilt=) / per-segment plane.tilt against the equivalent OPD ramp through the real propagate_dft, with the tilt angle '
               'split into a concrete whole-sample part and a symbolic sub-sample part; fit_tilt with the real pinv on concrete design matrices and symbolic OPD.')
BOUNDS = {
    'quick': 'shift algebra: <= 3 elements, all orders, symbolic angles/z/lambda/du/oversample; representations: pupil 2x2 (and 2x3), output <= 3x3, oversample 1..2, '
             'whole-sample displacement in -(S+1)..S+1 per axis (sampled 400), sub-sample part symbolic in [0,1); fit_tilt: masks on <= 3x4 arrays, 1..2 segments, 2 pixel scales',
    'thorough': 'representations: pupils up to 3x3, 900 sampled displacements; fit_tilt: 1..3 segments',
}
ASSUMPTIONS = ['dispersive elements of order 1 symbolically; a second-order trace (scipy.optimize.leastsq / integrate.quad, not modelled) only through a concrete-only obligation evaluated at the sampled points of every run',
               'displacement = k + s with k an enumerated integer and s symbolic: s in [eps, 1-eps] for k > 0, [-1+eps, -eps] for k < 0, [-1+eps, 1-eps] for k = 0, eps = 2^-20 (displacements within eps of a discontinuity of fix() are excluded: floating point may land on either side); every other real displacement |shift| < S+2 is covered',
               'fit_tilt: |opd| <= 1 per sample for the tolerance 1e-9 of the least-squares normal equations (float pinv weights)']
STUBS = ['numpy.linalg.lstsq: x = pinv(A) @ b with the real numpy pinv on the concrete design matrix, b symbolic']


# ------------------------------------------------------------------ shift algebra
def cfg_shift(tier, seed):
    elems = ['T', 'T', 'T', 'D']
    out = []
    seen = set()
    for n in (1, 2, 3):
        for combo in itertools.permutations(range(4), n):
            kinds = tuple(elems[i] for i in combo)
            if kinds.count('D') > 1:
                continue
            key = (kinds, tuple(combo))
            out.append({'order': list(combo)})
    out += [{'order': o} for o in ([0, 0], [1, 0, 1], [2, 2, 2], [3, 0, 0], [0, 3, 0])]
    out.append({'order': [], 'dispersive2': True})
    return out, len(out), True


def _dispersive2(W, lt):
    """second-order trace (numeric branch: scipy.optimize.leastsq / integrate.quad are not modelled symbolically): a concrete-only
    obligation, evaluated on every concrete run with the sampled coefficients and wavelengths on both sides of the reference"""
    a, b = W.real('t2', lo=1, hi=30), W.real('t1', lo='1/4', hi=2)
    d1, d0 = W.real('d1', lo='1/10', hi=1), W.real('d0', lo=1, hi=2)
    lam_lo, lam_hi = W.real('lamlo', lo='1/2', hi='9/10'), W.real('lamhi', lo='11/10', hi='3/2')

    def ok():
        import numpy as _np, scipy.integrate as _si
        dt = lt.DispersiveTilt(trace=[float(a), float(b), 0.0], dispersion=[float(d1), float(d0)])
        for lam in (float(lam_lo) * float(d0), float(lam_hi) * float(d0), float(d0)):
            x, y = dt.shift(wavelength=lam, xs=0.0, ys=0.0)
            x, y = float(_np.ravel(x)[0]), float(_np.ravel(y)[0])
            # an incoming displacement adds, and asking again (same wavelength, another incoming displacement) is unaffected by it
            for xs, ys in ((0.25, -0.5), (-1.0, 2.0), (0.25, -0.5)):
                x2, y2 = dt.shift(wavelength=lam, xs=xs, ys=ys)
                if abs(float(_np.ravel(x2)[0]) - (x + xs)) > 1e-9 * (1 + abs(x)) or abs(float(_np.ravel(y2)[0]) - (y + ys)) > 1e-9 * (1 + abs(y)):
                    return False
            dist = (lam - float(d0)) / float(d1)
            arc = _si.quad(lambda t: _np.sqrt(1 + (2 * float(a) * t + float(b)) ** 2), 0, x)[0]
            if abs(y - (float(a) * x * x + float(b) * x)) > 1e-9 * (1 + abs(y)) or abs(arc - dist) > 1e-6 * (1 + abs(dist)):
                return False
            # a straight trace with a second-order dispersion polynomial: still at the arc length that polynomial maps to the wavelength
            e2 = 0.05 * float(d1)
            mixed = lt.DispersiveTilt(trace=[float(b), 0.0], dispersion=[e2, float(d1), float(d0)])
            xm, ym = (float(_np.ravel(v)[0]) for v in mixed.shift(wavelength=lam, xs=0.0, ys=0.0))
            arc_m = xm * _np.sqrt(1 + float(b) ** 2)
            if abs(ym - float(b) * xm) > 1e-9 * (1 + abs(ym)) or abs(_np.polyval([e2, float(d1), float(d0)], arc_m) - lam) > 1e-6 * (1 + abs(lam)):
                return False
            # a straight trace written with a leading zero coefficient is the same straight trace
            pad = lt.DispersiveTilt(trace=[0.0, float(b), 0.0], dispersion=[float(d1), float(d0)])
            ref = lt.DispersiveTilt(trace=[float(b), 0.0], dispersion=[float(d1), float(d0)])
            xp, yp = (float(_np.ravel(v)[0]) for v in pad.shift(wavelength=lam, xs=0.0, ys=0.0))
            xr, yr = (float(_np.ravel(v)[0]) for v in ref.shift(wavelength=lam, xs=0.0, ys=0.0))
            if abs(xp - xr) > 1e-6 * (1 + abs(xr)) or abs(yp - yr) > 1e-6 * (1 + abs(yr)):
                return False
            # ... and the element propagates end to end: the same field as an element that returns that displacement outright
            class _Fixed:
                def shift(self, xs=0., ys=0., **kw):
                    return xs + x, ys + y
            pup = lt.Pupil(amplitude=_np.ones((2, 3)), pixelscale=1.0, focal_length=1.0)
            du = 4.0 * max(abs(x), abs(y), 1e-3)
            w1 = lt.Wavefront(lam) * pup * dt
            w2 = lt.Wavefront(lam) * pup
            for fld in w2.data:
                fld.tilt = [_Fixed()]
            f1 = lt.propagate_dft(w1, pixelscale=du, shape=(4, 5)).field
            f2 = lt.propagate_dft(w2, pixelscale=du, shape=(4, 5)).field
            if f1.shape != f2.shape or not _np.allclose(f1, f2, rtol=1e-9, atol=1e-12):
                return False
        return True
    W.ob_concrete('second-order dispersive element: on its trace at the signed arc length the dispersion maps to the wavelength', ok)
    W.ob('anchor', a + b, b + a)


def run_shift(W, cfg):
    lt = W.lentil
    if cfg.get('dispersive2'):
        return _dispersive2(W, lt)
    z = W.real('z', pos=True)
    lam = W.real('lam', pos=True)
    du = (W.real('dur', pos=True), W.real('duc', pos=True))
    os = W.real('os', pos=True)
    angles = [(W.real(f'tx{i}'), W.real(f'ty{i}')) for i in range(3)]
    t1, t0 = W.real('t1'), W.real('t0')
    d1, d0 = W.real('d1', nz=True), W.real('d0')
    elems = []
    made = {}
    for i in cfg['order']:
        if i in made:
            elems.append(made[i])               # the same element object met again (w * t * t): its displacement counts again
        elif i < 3:
            elems.append(made.setdefault(i, lt.Tilt(x=angles[i][0], y=angles[i][1])))
        else:
            elems.append(made.setdefault(i, lt.DispersiveTilt(trace=[t1, t0], dispersion=[d1, d0])))
    fld = lt.field.Field(data=1, tilt=elems)
    got = fld.shift(z=z, wavelength=lam, pixelscale=du, oversample=os, indexing='ij')
    # reference: displacements add; +x tilt -> +rows by z*tx*os/du_row ; +y tilt -> -cols by z*ty*os/du_col
    row, col = 0, 0
    for i in cfg['order']:
        if i < 3:
            row = row + z * angles[i][0] * os / du[0]
            col = col - z * angles[i][1] * os / du[1]
        else:
            dist = (lam - d0) / d1                       # dispersion polynomial maps arc length to wavelength
            q = W.sqrt(1 + t1 * t1)
            x = dist / q                                 # arc length along y = t1 x + t0 is sqrt(1+t1^2) x
            y = t1 * x + t0
            row = row - y * os / du[0]
            col = col + x * os / du[1]
    W.ob('shift', [got[0], got[1]], [row, col])
    again = fld.shift(z=z, wavelength=lam, pixelscale=du, oversample=os, indexing='ij')
    W.ob('shift, asked a second time', [again[0], again[1]], [got[0], got[1]])
    if 3 in cfg['order'] and len(cfg['order']) == 1:
        x, y = elems[0].shift(wavelength=lam, xs=0, ys=0)
        W.ob('on trace', y, t1 * x + t0)
        W.ob('dispersion(arc length) = wavelength', d1 * (W.sqrt(1 + t1 * t1) * x) + d0, lam)


# ------------------------------------------------------------------ representations
def cfg_repr(tier, seed):
    rng = random.Random(404 + seed)
    want = 400 if tier == 'quick' else 900
    out = []
    pupils = [(2, 2), (2, 3), (1, 2)] if tier == 'quick' else [(2, 2), (2, 3), (3, 2), (3, 3), (1, 2)]
    for _ in range(want):
        n = rng.choice(pupils)
        S = [rng.randint(1, 3), rng.randint(1, 3)]
        os = rng.randint(1, 2)
        P = [rng.randint(1, S[0]), rng.randint(1, S[1])]
        kmax = (S[0] * os + 1, S[1] * os + 1)
        k = [rng.randint(-kmax[0], kmax[0]), rng.randint(-kmax[1], kmax[1])]
        if rng.random() < 0.3:
            k[rng.randint(0, 1)] = 0
        rep = rng.choice(['tilt-plane', 'tilt-plane', 'wavefront-tilt', 'two-tilts', 'segments', 'wtilt-segments-tilt', 'wtilt-scalarplane'])
        if rep in ('segments', 'wtilt-segments-tilt') and n[0] * n[1] < 2:
            rep = 'tilt-plane'
        out.append({'n': list(n), 'shape': S, 'prop': P, 'os': os, 'k': k, 'rep': rep, 'scales': rng.choice(['axis', 'axis', 'scalar'])})
        if rng.random() < 0.3 and S[0] * os * S[1] * os >= 2:
            # an output mask (rectangle of the oversampled output) on top of the carried tilt: the displaced window may cut through it
            r0, c0 = rng.randrange(S[0] * os), rng.randrange(S[1] * os)
            out[-1]['omask'] = [r0, rng.randrange(r0, S[0] * os), c0, rng.randrange(c0, S[1] * os)]
    out.append({'n': [2, 2], 'shape': [2, 2], 'prop': [2, 2], 'os': 1, 'k': [0, 0], 'rep': 'tilt-plane', 'scales': 'axis'})
    out.append({'n': [2, 2], 'shape': [2, 3], 'prop': [2, 3], 'os': 2, 'k': [1, -2], 'rep': 'tilt-plane', 'scales': 'axis'})
    out.append({'n': [2, 2], 'shape': [2, 2], 'prop': [2, 2], 'os': 1, 'k': [5, 0], 'rep': 'wavefront-tilt', 'scales': 'axis'})
    return out, len(out), False


EPS = '1/1048576'


def _sub(W, name, k):
    """sub-sample part of the displacement; values within 2^-20 of a discontinuity of fix() are excluded (A-REAL: the real
    code evaluates the displacement in floating point and may land on either side there)."""
    eps = W.const(EPS)
    if k > 0:
        s = W.real(name, pos=True)
        W.assume(s >= eps)
        W.assume(s <= 1 - eps)
    elif k < 0:
        s = W.real(name, hi=0)
        W.assume(s <= -eps)
        W.assume(s >= -1 + eps)
    else:
        s = W.real(name, lo=-1, hi=1)
        W.assume(s >= -1 + eps)
        W.assume(s <= 1 - eps)
    return s


def run_repr(W, cfg):
    lt = W.lentil
    nr, nc = cfg['n']
    os = cfg['os']
    S = (cfg['shape'][0] * os, cfg['shape'][1] * os)
    A = W.reals('a', (nr, nc))
    lam = W.real('lam', pos=True)
    f = W.real('f', pos=True)
    if cfg['scales'] == 'scalar':
        dxs, dus = W.real('dx', pos=True), W.real('du', pos=True)
        dx, du = (dxs, dxs), (dus, dus)
    else:
        dx = (W.real('dxr', pos=True), W.real('dxc', pos=True))
        du = (W.real('dur', pos=True), W.real('duc', pos=True))
    kr, kc = cfg['k']
    rep = cfg['rep']
    nseg = 2 if rep == 'segments' else 1
    split_mask = rep in ('segments', 'wtilt-segments-tilt')
    # displacement (rows, cols) in oversampled output samples = k + s; tilt angles that produce it
    segs = []
    cells = [(r, c) for r in range(nr) for c in range(nc)]
    if rep == 'segments':
        segs = [cells[::2], cells[1::2]]
    else:
        segs = [cells]
    mask_segs = [cells[::2], cells[1::2]] if split_mask else [cells]
    disp, angles = [], []
    for g in range(nseg):
        sr, sc = _sub(W, f'sr{g}', kr), _sub(W, f'sc{g}', kc)
        shift_r, shift_c = kr + sr, kc + sc
        tx = shift_r * du[0] / (f * os)
        ty = -(shift_c * du[1]) / (f * os)
        disp.append((shift_r, shift_c))
        angles.append((tx, ty))
    # (i) the OPD ramp  theta_x * r*dx_r - theta_y * c*dx_c  (r, c measured from the array origin floor(n/2))
    ramp = W.zeros((nr, nc))
    for g, seg in enumerate(segs):
        for (r, c) in seg:
            ramp[r, c] = angles[g][0] * ((r - nr // 2) * dx[0]) - angles[g][1] * ((c - nc // 2) * dx[1])
    mask2 = rnp.ones((nr, nc), dtype=int)
    if split_mask:
        mask = rnp.zeros((2, nr, nc), dtype=int)
        for g, seg in enumerate(mask_segs):
            for (r, c) in seg:
                mask[g, r, c] = 1
    else:
        mask = mask2
    p_ramp = lt.Pupil(amplitude=A, opd=ramp, mask=mask.copy(), pixelscale=dx, focal_length=f)
    full = lt.propagate_dft(lt.Wavefront(lam) * p_ramp, pixelscale=du, shape=tuple(cfg['shape']), oversample=os).field
    # (ii)-(iii) the same tilt as metadata
    p_flat = lt.Pupil(amplitude=A, mask=mask.copy(), pixelscale=dx, focal_length=f)
    if rep == 'wavefront-tilt':
        w = lt.Wavefront(lam, tilt=[angles[0][0], angles[0][1]]) * p_flat
    elif rep == 'tilt-plane':
        w = lt.Wavefront(lam) * p_flat * lt.Tilt(x=angles[0][0], y=angles[0][1])
    elif rep == 'wtilt-scalarplane':
        # the tilted wavefront meets planes without arrays (a default plane, a second Tilt) before the pupil
        h = W.real('split')
        w = lt.Wavefront(lam, tilt=[angles[0][0] * h, angles[0][1] * h]) * lt.Plane() * lt.Tilt(x=angles[0][0] * (1 - h), y=angles[0][1] * (1 - h)) * lt.Pupil(focal_length=f) * p_flat
    elif rep == 'two-tilts':
        h = W.real('split')
        w = lt.Wavefront(lam) * lt.Tilt(x=angles[0][0] * h, y=angles[0][1] * (1 - h)) * p_flat * lt.Tilt(x=angles[0][0] * (1 - h), y=angles[0][1] * h)
    elif rep == 'wtilt-segments-tilt':
        # part of the tilt on the wavefront, a tilt-free segmented pupil, the rest on a Tilt plane; the intermediate
        # wavefront is also handed to a second, different Tilt plane first (fan-out must not disturb it)
        h = W.real('split')
        w0 = lt.Wavefront(lam, tilt=[angles[0][0] * h, angles[0][1] * h]) * p_flat
        _other = w0 * lt.Tilt(x=W.real('ox'), y=W.real('oy'))
        w = w0 * lt.Tilt(x=angles[0][0] * (1 - h), y=angles[0][1] * (1 - h))
    else:
        p_flat.tilt = [lt.Tilt(x=a[0], y=a[1]) for a in angles]
        w = lt.Wavefront(lam) * p_flat
    om = None
    if cfg.get('omask'):
        om = rnp.zeros(S, dtype=int)
        om[cfg['omask'][0]:cfg['omask'][1] + 1, cfg['omask'][2]:cfg['omask'][3] + 1] = 1
    o = lt.propagate_dft(w, pixelscale=du, shape=tuple(cfg['shape']), prop_shape=tuple(cfg['prop']), oversample=os, mask=om)
    got = o.field
    if rep == 'segments':
        # per-segment windows differ only in the sub-sample part: same integer displacement, same window
        pass
    P = (cfg['prop'][0] * os, cfg['prop'][1] * os)
    wr = optics.centre_window(S[0], P[0])
    wc = optics.centre_window(S[1], P[1])

    def inside(i, j):
        if om is not None and not (cfg['omask'][0] <= i <= cfg['omask'][1] and cfg['omask'][2] <= j <= cfg['omask'][3]):
            return False
        return wr[0] + kr <= i <= wr[1] + kr and wc[0] + kc <= j <= wc[1] + kc

    want = [[full[i, j] if inside(i, j) else 0 for j in range(S[1])] for i in range(S[0])]
    W.ob('tilted field = ramp field on the displaced window, 0 outside', got, W.array(want))


# ------------------------------------------------------------------ fit_tilt
def cfg_fit(tier, seed):
    rng = random.Random(44 + seed)
    out = []
    shapes = [(2, 2), (2, 3), (3, 3), (3, 4)]
    for shp in shapes:
        cells = [(r, c) for r in range(shp[0]) for c in range(shp[1])]
        for ps in ([1, 1], [0.001, 0.002]):
            out.append({'shape': list(shp), 'segs': [[list(x) for x in cells]], 'ps': ps, 'inplace': False})
            if len(cells) >= 6:
                a = [x for x in cells if x[1] < (shp[1] + 1) // 2 or x == cells[-1]]
                b = [x for x in cells if x not in a]
                if len(b) >= 3:
                    out.append({'shape': list(shp), 'segs': [[list(x) for x in a], [list(x) for x in b]], 'ps': ps, 'inplace': rng.random() < 0.5})
        if shp == (3, 4):
            # an OPD held as integers (e.g. nanometre counts): the same fit, not a type error
            out.append({'shape': list(shp), 'segs': [[list(x) for x in cells]], 'ps': [1, 1], 'inplace': False, 'intopd': True})
            out.append({'shape': list(shp), 'segs': [[list(x) for x in cells if x[1] < 2], [list(x) for x in cells if x[1] >= 2]], 'ps': [1, 1], 'inplace': True, 'intopd': True})
        sub = rng.sample(cells, max(3, len(cells) - 1))
        out.append({'shape': list(shp), 'segs': [[list(x) for x in sorted(sub)]], 'ps': [1, 1], 'inplace': True})
    return out, len(out), True


def run_fit(W, cfg):
    lt = W.lentil
    shp = tuple(cfg['shape'])
    nseg = len(cfg['segs'])
    O = W.reals('o', shp, lo=-1, hi=1)
    if cfg.get('intopd'):
        O = rnp.array([[(7 * r * r + 3 * c + r * c * c) % 11 - 5 for c in range(shp[1])] for r in range(shp[0])])
        W.ob('anchor', W.real('unused') * 1, W.real('unused'))
    O0 = O.copy()
    ps = tuple(cfg['ps'])
    mask = rnp.zeros((nseg,) + shp, dtype=int)
    for g, seg in enumerate(cfg['segs']):
        for r, c in seg:
            mask[g, r, c] = 1
    m = mask if nseg > 1 else mask[0]
    # rank check of the per-segment design matrices (the property presupposes a well-posed fit)
    for g in range(nseg):
        B = rnp.array([[1.0, (r - shp[0] // 2) * ps[0], -(c - shp[1] // 2) * ps[1]] for r, c in cfg['segs'][g]])
        if rnp.linalg.matrix_rank(B) < 3:
            return
    # another plane of the same shape and a different pixel scale is fitted first (same process): nothing of it may be remembered
    prim = lt.Pupil(amplitude=rnp.ones(shp), opd=rnp.array([[0.5 * r - 0.25 * c + 0.125 * r * c for c in range(shp[1])] for r in range(shp[0])]),
                    mask=rnp.ones(shp, dtype=int), pixelscale=(ps[0] * 3, ps[1] * 5), focal_length=10.0)
    prim.fit_tilt(inplace=True)
    p = lt.Pupil(amplitude=rnp.ones(shp), opd=O, mask=m.copy(), pixelscale=ps, focal_length=10.0)
    q = p.fit_tilt(inplace=cfg['inplace'])
    if cfg['inplace']:
        W.ob_true('inplace returns self', W.same(q, p))
    else:
        W.ob_true('copy returned', not W.same(q, p))
        W.ob('original opd untouched', p.opd, O0)
        W.ob_true('original tilt list untouched', len(p.tilt) == 0)
    W.ob_true('one Tilt per segment', len(q.tilt) == nseg)
    after = q.opd
    n = 0
    for g, seg in enumerate(cfg['segs']):
        t = q.tilt[g]
        # Tilt(x, y) stores the angles swapped; recover the constructor arguments through the public shift()
        xs, ys = t.shift(xs=0, ys=0, z=1)
        ty_, tx_ = -xs, -ys
        res = []
        for (r, c) in seg:
            rr, cc = (r - shp[0] // 2) * ps[0], (c - shp[1] // 2) * ps[1]
            if cfg.get('intopd'):
                W.ob_close(f'opd_after + recorded ramp = opd_before [{g}]({r},{c})', after[r, c] + tx_ * rr - ty_ * cc, float(O0[r, c]), 1e-9)
            else:
                W.ob(f'opd_after + recorded ramp = opd_before [{g}]({r},{c})', after[r, c] + tx_ * rr - ty_ * cc, O0[r, c])
            res.append((rr, cc, after[r, c]))
        # least squares: the residual (opd_after on the segment, piston included) is orthogonal to tip and tilt after removing its mean,
        # i.e. normal equations  sum (v - mean) * rr = 0 ,  sum (v - mean) * cc = 0   (tolerance for the float pinv weights)
        k = len(res)
        mean = W.sum(v for _, _, v in res) / k
        W.ob_close(f'no residual tip [{g}]', W.sum((v - mean) * rr for rr, cc, v in res), 0, 1e-9)
        W.ob_close(f'no residual tilt [{g}]', W.sum((v - mean) * cc for rr, cc, v in res), 0, 1e-9)

    if not cfg.get('intopd'):
        # a second fit after the OPD changed: every field of the product carries both fitted tilts of its segment
        ramp = rnp.array([[0.125 * (r - shp[0] // 2) * ps[0] - 0.25 * (c - shp[1] // 2) * ps[1] for c in range(shp[1])] for r in range(shp[0])])
        q.opd = q.opd + ramp * (mask.sum(axis=0) > 0)
        q.fit_tilt(inplace=True)
        W.ob_true('two Tilts per segment after the second fit', len(q.tilt) == 2 * nseg)
        w2 = lt.Wavefront(W.real('lam', pos=True)) * q
        W.ob_true('one field per segment', len(w2.data) == nseg)
        for k, fld in enumerate(w2.data):
            got = fld.shift(z=1, wavelength=1, pixelscale=(1, 1), oversample=1, indexing='xy')
            xa, ya = q.tilt[k].shift(xs=0, ys=0, z=1)
            xb, yb = q.tilt[k + nseg].shift(xs=0, ys=0, z=1)
            W.ob_true(f'field {k} carries both tilts of its segment', len(fld.tilt) == 2)
            W.ob_close(f'field {k}: displacement = sum of both fitted tilts (x)', got[0], xa + xb, 1e-9)
            W.ob_close(f'field {k}: displacement = sum of both fitted tilts (y)', got[1], ya + yb, 1e-9)


HARNESSES = {
    'shift_algebra': {'configs': cfg_shift, 'run': run_shift, 'small': 4},
    'representations': {'configs': cfg_repr, 'run': run_repr, 'small': 2},
    'fit_tilt': {'configs': cfg_fit, 'run': run_fit, 'small': 1},
}

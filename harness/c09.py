"""C09 - FFT propagation agrees with DFT propagation; scratch space is transparent; tilt is refused."""
import itertools, random
import numpy as rnp
from specs import optics

EXPLANATION = ('C09: propagate_fft against propagate_dft on the same symbolic wavefront (FFT by its defining sum over Z_N, roots of unity '
               'as atoms with linear theorems), for FFT grids of both parities and unequal per axis; scratch buffers with arbitrary prior content.')
BOUNDS = {
    'quick': 'FFT grids (N_r, N_c) in 2..5 per axis; pupils <= min(N, 3) of both parities; oversample 1..2 (dividing N); output shape None / every shape*os <= N (sampled) / one beyond; '
             'scratch exact, larger, smaller; band variant (wavelength free inside the rounding band, amplitude-only pupil) on grids <= 4',
    'thorough': 'grids 2..8; pupils <= min(N, 4); all accepted output shapes',
}
ASSUMPTIONS = ['commensurate variant: 1/alpha = N exactly, so the reported propagation wavelength equals the input wavelength and the pupil phasor is common to both propagators',
               'band variant: N - 1/2 < 1/alpha < N + 1/2 strictly (rounding ties excluded), amplitude-only pupil (its phasor does not depend on the wavelength)',
               'roots of unity: linear theorems only (trusted)']
STUBS = []


def cfg_fft(tier, seed):
    rng = random.Random(909 + seed)
    top, ptop = (5, 3) if tier == 'quick' else (8, 4)
    out = []
    for Nr, Nc in itertools.product(range(2, top + 1), repeat=2):
        for os in (1, 2):
            odd_os = bool(Nr % os or Nc % os)
            if odd_os and Nr * Nc > 12:
                continue
            pups = {(min(ptop, Nr), min(ptop, Nc)), (max(1, min(ptop, Nr) - 1), max(1, min(ptop, Nc) - 1)), (1, 2) if Nc >= 2 else (1, 1)}
            for nr, nc in sorted(pups):
                if tier == 'quick' and Nr * Nc >= 20 and nr * nc > 6:
                    continue
                shapes = [None] + [(a, b) for a in range(1, Nr // os + 1) for b in range(1, Nc // os + 1)]
                pick = [None] + rng.sample(shapes[1:], min(len(shapes) - 1, 2 if tier == 'quick' else 6))
                for shp in pick:
                    out.append({'N': [Nr, Nc], 'n': [nr, nc], 'os': os, 'shape': None if shp is None else list(shp), 'kind': 'value'})
                    if shp is None and nr * nc >= 2 and Nr * Nc <= 16:
                        # one field whose bounding box is off the array centre (a global mask in a corner)
                        out.append({'N': [Nr, Nc], 'n': [nr, nc], 'os': os, 'shape': None, 'kind': 'value', 'seg': 'corner'})
                    if shp is None and nc % 2 == 0 and Nr * Nc <= 16:
                        # the same pupil as two equal-shape segments (several input fields)
                        out.append({'N': [Nr, Nc], 'n': [nr, nc], 'os': os, 'shape': None, 'kind': 'value', 'seg': True})
                out.append({'N': [Nr, Nc], 'n': [nr, nc], 'os': os, 'shape': [Nr // os + 1, Nc // os], 'kind': 'oversize'})
                if Nr // os >= 2:
                    out.append({'N': [Nr, Nc], 'n': [nr, nc], 'os': os, 'shape': [Nr // os - 1, Nc // os + 1], 'kind': 'oversize'})
    return out, len(out), False


def _wave(W, cfg, opd=True):
    lt = W.lentil
    nr, nc = cfg['n']
    Nr, Nc = cfg['N']
    os = cfg['os']
    A = W.reals('a', (nr, nc))
    lam = W.real('lam', pos=True)
    f = W.real('f', pos=True)
    dx = (W.real('dxr', pos=True), W.real('dxc', pos=True))
    du = (lam * f * os / (Nr * dx[0]), lam * f * os / (Nc * dx[1]))
    kw = {'opd': W.reals('o', (nr, nc))} if opd else {}
    mask = rnp.ones((nr, nc), dtype=int)
    if cfg.get('seg') == 'corner':
        mask = rnp.zeros((nr, nc), dtype=int)
        mask[nr - 1, nc - 1] = 1
        if nr > 1 and nc > 1:
            mask[nr - 1, nc - 2] = 1
    elif cfg.get('seg') == 'diag':
        # two interleaved segments whose bounding boxes coincide
        rr, cc = rnp.mgrid[0:nr, 0:nc]
        mask = rnp.stack([((rr + cc) % 2 == 0).astype(int), ((rr + cc) % 2 == 1).astype(int)])
    elif cfg.get('seg'):
        mask = rnp.zeros((2, nr, nc), dtype=int)
        mask[0, :, :nc // 2] = 1
        mask[1, :, nc // 2:] = 1
    pupil = lt.Pupil(amplitude=A, pixelscale=dx, focal_length=f, mask=mask, **kw)
    return lt, pupil, lam, f, dx, du


def run_fft(W, cfg):
    lt, pupil, lam, f, dx, du = _wave(W, cfg)
    os = cfg['os']
    w = lt.Wavefront(lam) * pupil
    shp = None if cfg['shape'] is None else tuple(cfg['shape'])
    if cfg['kind'] == 'oversize':
        try:
            lt.propagate_fft(w, pixelscale=du, shape=shp, oversample=os)
        except ValueError:
            W.ob_ok('oversize-refused')
            return
        W.ob_fail('oversize-refused')
        return
    o = lt.propagate_fft(w, pixelscale=du, shape=shp, oversample=os)
    W.ob('reported wavelength', o.wavelength, lam)
    dshape = (cfg['N'][0] // os, cfg['N'][1] // os) if shp is None else shp
    w2 = lt.Wavefront(o.wavelength) * pupil
    if shp is None and (cfg['N'][0] % os or cfg['N'][1] % os):
        # the full FFT grid is not a whole number of detector pixels: compare on the largest centred window that is
        d = lt.propagate_dft(w2, pixelscale=du, shape=dshape, oversample=os)
        full = o.field
        S, Sd = full.shape, d.field.shape
        r0, c0 = S[0] // 2 - Sd[0] // 2, S[1] // 2 - Sd[1] // 2
        W.ob('fft field = dft field (centred window)', full[r0:r0 + Sd[0], c0:c0 + Sd[1]], d.field)
        W.ob('pixelscale', [o.pixelscale[0], o.pixelscale[1]], [du[0] / os, du[1] / os])
        return
    d = lt.propagate_dft(w2, pixelscale=du, shape=dshape, oversample=os)
    W.ob('fft field = dft field', o.field, d.field)
    W.ob('pixelscale', [o.pixelscale[0], o.pixelscale[1]], [du[0] / os, du[1] / os])
    W.ob('focal_length', o.focal_length, f)
    W.ob_true('ptype', o.ptype == lt.image)
    W.ob_true('shape', tuple(int(x) for x in o.shape) == tuple(int(x) for x in d.shape))


def cfg_scratch(tier, seed):
    out = []
    grids = [(2, 2), (3, 2), (4, 3), (2, 3), (3, 4)] if tier == 'quick' else [(2, 2), (3, 2), (4, 3), (2, 3), (3, 4), (5, 4), (4, 6), (6, 6)]
    for Nr, Nc in grids:
        for extra in ('exact', 'larger', 'much-larger', 'smaller-r', 'smaller-c'):
            out.append({'N': [Nr, Nc], 'n': [min(2, Nr), min(2, Nc)], 'os': 1, 'extra': extra})
            if extra in ('exact', 'larger') and min(Nr, Nc) >= 2:
                out.append({'N': [Nr, Nc], 'n': [2, 2], 'os': 1, 'extra': extra, 'seg': 'diag'})
    return out, len(out), True


def run_scratch(W, cfg):
    lt, pupil, lam, f, dx, du = _wave(W, cfg)
    Nr, Nc = cfg['N']
    w = lt.Wavefront(lam) * pupil
    adv = lt.scratch_shape(lam, dx, du, f, cfg['os'])
    W.ob_true('advertised scratch shape = fft grid', tuple(int(x) for x in adv) == (Nr, Nc))
    sshape = {'exact': (Nr, Nc), 'larger': (Nr + 1, Nc + 2), 'much-larger': (2 * Nr + 1, 2 * Nc), 'smaller-r': (Nr - 1, Nc + 1), 'smaller-c': (Nr, Nc - 1)}[cfg['extra']]
    scratch = W.complexes('dirty', sshape)
    ref = lt.propagate_fft(w, pixelscale=du, oversample=cfg['os']).field
    try:
        kept = lt.propagate_fft(w, pixelscale=du, oversample=cfg['os'], scratch=scratch)
        got = kept.field
    except ValueError:
        if cfg['extra'].startswith('smaller'):
            W.ob_ok('too-small scratch refused')
        else:
            W.ob_fail('sufficient scratch accepted')
        return
    if cfg['extra'].startswith('smaller'):
        W.ob_fail('too-small scratch refused')
        return
    W.ob_ok('sufficient scratch accepted')
    W.ob('scratch result = plain result', got, ref)
    # the same (now dirty) buffer reused: with an explicit smaller output shape, and for a second propagation on a smaller FFT grid
    small = (max(1, Nr - 1), max(1, Nc - 1))
    ref2 = lt.propagate_fft(w, pixelscale=du, shape=small, oversample=cfg['os']).field
    got2 = lt.propagate_fft(w, pixelscale=du, shape=small, oversample=cfg['os'], scratch=scratch).field
    W.ob('reused scratch, explicit smaller shape', got2, ref2)
    got3 = lt.propagate_fft(w, pixelscale=du, shape=small, oversample=cfg['os'], scratch=scratch).field
    W.ob('reused scratch a third time', got3, ref2)
    if Nr > 2 and Nc > 2:
        du_s = (du[0] * Nr / (Nr - 1), du[1] * Nc / (Nc - 1))            # FFT grid (Nr-1, Nc-1) with the same wavefront
        pw = lt.Wavefront(lam) * lt.Pupil(amplitude=W.reals('a2', (1, 1), nz=True) if False else pupil.amplitude[:1, :1], pixelscale=dx, focal_length=f, mask=rnp.ones((1, 1), dtype=int))
        ref4 = lt.propagate_fft(pw, pixelscale=du_s, oversample=cfg['os']).field
        got4 = lt.propagate_fft(pw, pixelscale=du_s, oversample=cfg['os'], scratch=scratch).field
        W.ob('reused scratch for a smaller FFT grid', got4, ref4)
    # another wavefront through the same buffer (a second wavelength of a broadband loop, say), then the result kept from the first call
    other = lt.Wavefront(lam) * lt.Pupil(amplitude=pupil.amplitude * 2 + 1, pixelscale=dx, focal_length=f, mask=pupil.mask.copy())
    ref5 = lt.propagate_fft(other, pixelscale=du, oversample=cfg['os']).field
    got5 = lt.propagate_fft(other, pixelscale=du, oversample=cfg['os'], scratch=scratch).field
    W.ob('another wavefront through the same scratch', got5, ref5)
    W.ob('the wavefront returned by the first call is unaffected by later use of the buffer', kept.field, ref)


def cfg_tilt(tier, seed):
    out = [{'route': r} for r in ('none', 'wavefront-tilt', 'tilt-plane', 'fit-tilt', 'dispersive', 'segments-none', 'segments-first', 'segments-second', 'segments-both')]
    return out, len(out), True


def run_tilt(W, cfg):
    lt = W.lentil
    c2 = {'N': [4, 4], 'n': [2, 2], 'os': 1}
    lt, pupil, lam, f, dx, du = _wave(W, c2)
    route = cfg['route']
    if route == 'wavefront-tilt':
        w = lt.Wavefront(lam, tilt=[W.real('tx'), W.real('ty')]) * pupil
    elif route == 'tilt-plane':
        w = lt.Wavefront(lam) * pupil * lt.Tilt(x=W.real('tx'), y=W.real('ty'))
    elif route == 'dispersive':
        w = lt.Wavefront(lam) * pupil * lt.DispersiveTilt(trace=[W.real('t1'), W.real('t0')], dispersion=[W.real('d1', pos=True), W.real('d0')])
    elif route == 'fit-tilt':
        import numpy
        p2 = lt.Pupil(amplitude=numpy.ones((3, 3)), opd=numpy.arange(9.0).reshape(3, 3) * 1e-7, pixelscale=1.0, focal_length=10.0).fit_tilt()
        w = lt.Wavefront(lam) * p2
        du = (lam * 10.0 / 4, lam * 10.0 / 4)
    elif route.startswith('segments-'):
        # a two-segment wavefront (two disjoint fields) in which none / only the first / only the second / both segments carry a tilt
        w = lt.Wavefront(lam) * lt.Pupil(amplitude=W.reals('s', (2, 2)), pixelscale=dx, focal_length=f, mask=rnp.array([[[1, 0], [1, 0]], [[0, 1], [0, 1]]]))
        which = {'none': (), 'first': (0,), 'second': (1,), 'both': (0, 1)}[route[9:]]
        for k in which:
            w.data[k].tilt = [lt.Tilt(x=W.real(f'tx{k}'), y=W.real(f'ty{k}'))]
        route = 'none' if not which else route
    else:
        w = lt.Wavefront(lam) * pupil
    if route != 'none':
        for sshape in ((4, 4), (5, 6)):
            try:
                lt.propagate_fft(w, pixelscale=du, oversample=1, scratch=W.complexes(f'scr{sshape[0]}', sshape))
                W.ob_fail('tilted wavefront refused also when a scratch buffer is passed')
            except NotImplementedError:
                W.ob_ok('tilted wavefront refused also when a scratch buffer is passed')
    try:
        lt.propagate_fft(w, pixelscale=du, oversample=1)
    except NotImplementedError:
        (W.ob_ok if route != 'none' else W.ob_fail)('tilted wavefront refused' if route != 'none' else 'untilted wavefront accepted')
        return
    (W.ob_ok if route == 'none' else W.ob_fail)('untilted wavefront accepted' if route == 'none' else 'tilted wavefront refused')


def cfg_band(tier, seed):
    grids = [(2, 2), (3, 3), (4, 4)] if tier == 'quick' else [(2, 2), (3, 3), (4, 4), (5, 5), (6, 6)]
    out = [{'N': list(g), 'n': [min(2, g[0]), min(2, g[1])], 'os': 1, 'scales': 'scalar'} for g in grids]
    # per-axis scales: the two axes round to their own grid sizes and only one wavelength is reported
    out += [{'N': [3, 3], 'n': [2, 2], 'os': 1, 'scales': 'axis', '_novalidate': True}]      # (sampling a point of two independent rounding bands costs z3 minutes; the replay of the known finding runs the real code anyway)
    if tier != 'quick':
        out += [{'N': [4, 3], 'n': [2, 2], 'os': 1, 'scales': 'axis', '_novalidate': True}]
    return out, len(out), True


def run_band(W, cfg):
    """wavelength free inside the rounding band of the grid size; amplitude-only pupil."""
    lt = W.lentil
    nr, nc = cfg['n']
    Nr, Nc = cfg['N']
    A = W.reals('a', (nr, nc))
    lam = W.real('lam', pos=True)
    f = W.real('f', pos=True)
    if cfg['scales'] == 'scalar':
        dxs, dus = W.real('dx', pos=True), W.real('du', pos=True)
        dx, du = (dxs, dxs), (dus, dus)
    else:
        dx = (W.real('dxr', pos=True), W.real('dxc', pos=True))
        du = (W.real('dur', pos=True), W.real('duc', pos=True))
    half = W.const('1/2')
    for ax, N in ((0, Nr), (1, Nc)):
        inv_alpha = lam * f / (dx[ax] * du[ax])
        W.assume(inv_alpha > N - half)
        W.assume(inv_alpha < N + half)
    if cfg['scales'] == 'scalar' and Nr != Nc:
        return
    # the advertised scratch size is the FFT grid for every wavelength of the band, also with oversampling (sampling du*os here,
    # so that the oversampled grid is the same N): a buffer of that size is accepted
    for os_adv in ((1, 2, 3) if cfg['scales'] == 'scalar' else ()):
        adv = lt.scratch_shape(lam, dx, (du[0] * os_adv, du[1] * os_adv), f, os_adv)
        W.ob_true(f'advertised scratch shape = fft grid (oversample {os_adv})', tuple(int(x) for x in adv) == (Nr, Nc))
    if cfg['scales'] == 'scalar':
        # a band given as a list: the buffer is sized for the longest wavelength wherever it stands in the list
        third, half_ = W.const('1/3'), W.const('1/2')
        for nm, band in (('longest first', [lam, lam * half_]), ('longest last', [lam * half_, lam]), ('unsorted', [lam * half_, lam, lam * third])):
            advb = lt.scratch_shape(band, dx, du, f, 1)
            W.ob_true(f'advertised scratch shape for a list of wavelengths ({nm}) = grid of the longest', tuple(int(x) for x in advb) == (Nr, Nc))

        def two_systems():
            # the same sampling and wavelength with another focal length, later in the same process: its own grid, its own result
            import numpy as real
            amp = real.array([[1.0, 2.0], [3.0, 4.0]])
            for fa, fb in ((4.0, 8.0), (8.0, 4.0)):
                for fl in (fa, fb):
                    n_ = int(fl)
                    if tuple(int(x) for x in lt.scratch_shape(1.0, 1.0, 1.0, fl, 1)) != (n_, n_):
                        return False
                    wv = lt.Wavefront(1.0) * lt.Pupil(amplitude=amp, pixelscale=1.0, focal_length=fl)
                    of = lt.propagate_fft(wv, pixelscale=1.0, oversample=1)
                    od = lt.propagate_dft(lt.Wavefront(1.0) * lt.Pupil(amplitude=amp, pixelscale=1.0, focal_length=fl), pixelscale=1.0, shape=(n_, n_), oversample=1)
                    if of.field.shape != (n_, n_) or not real.allclose(of.field, od.field, rtol=1e-9, atol=1e-12):
                        return False
                    buf = real.zeros((n_, n_), dtype=complex)
                    os_ = lt.propagate_fft(lt.Wavefront(1.0) * lt.Pupil(amplitude=amp, pixelscale=1.0, focal_length=fl), pixelscale=1.0, oversample=1, scratch=buf)
                    if not real.allclose(os_.field, od.field, rtol=1e-9, atol=1e-12):
                        return False
            return True
        W.ob_concrete('two systems with equal sampling and wavelength but focal lengths 4 and 8, one after the other: each gets its own grid, scratch size and field', two_systems)
    pupil = lt.Pupil(amplitude=A, pixelscale=dx, focal_length=f, mask=rnp.ones((nr, nc), dtype=int))
    w = lt.Wavefront(lam) * pupil
    o = lt.propagate_fft(w, pixelscale=du, oversample=1)
    lr, lc = Nr * dx[0] * du[0] / f, Nc * dx[1] * du[1] / f
    W.ob('reported wavelength = min over axes of N*dx*du/f', o.wavelength, W.min(lr, lc))
    w2 = lt.Wavefront(o.wavelength) * pupil
    d = lt.propagate_dft(w2, pixelscale=du, shape=(Nr, Nc), oversample=1)
    W.ob('fft field = dft field at the reported wavelength', o.field, d.field)


HARNESSES = {
    'fft_vs_dft': {'configs': cfg_fft, 'run': run_fft, 'small': 4},
    'scratch': {'configs': cfg_scratch, 'run': run_scratch, 'small': 4},
    'tilt_refused': {'configs': cfg_tilt, 'run': run_tilt, 'small': 4},
    'band': {'configs': cfg_band, 'run': run_band, 'small': 4, 'config_timeout_s': 600},
}

"""C14 - unit conversions are consistent and Planck's law is unit-independent."""
import itertools
from fractions import Fraction

EXPLANATION = ('C14: every ordered triple of wavelength units and of flux units (finite, enumerated completely) on symbolic fluxes and wavelengths; '
               'Spectrum.to on symbolic grids/values; planck_radiance/exitance with the real exponential as a congruent atom, compared with the textbook formula through the spec\'s own unit table.')
BOUNDS = {'quick': 'all 4^3 wavelength-unit triples (with aliases) and 3^3 flux-unit triples; Spectrum.to on grids of length 2..3, every (from, to, valueunit) combination; Planck in all 4 x 3 unit pairs',
          'thorough': 'grids of length up to 4'}
ASSUMPTIONS = ['"peaks where Wien\'s law says" and "integrates to the Stefan-Boltzmann total" are facts of analysis about the textbook formula that the harness pins lentil to; no SMT solver decides them and they are not checked',
               'physical constants H, C, K are read from lentil.radiometry (the source has C = 299792456, 7e-9 off the SI value; no clause depends on it)',
               'relative tolerance 1e-12 where lentil folds the constants in floating point in a different order than the reference',
               'Planck: lambda*T > 1e-4 m K (the exponent stays inside the range of double-precision exp)']
STUBS = ['numpy.exp of a real symbolic argument: atom exp(a) > 0, congruent on the canonical argument (and > 1 for a positive argument)']
WU = ['m', 'um', 'nm', 'angstrom']
ALIAS = {'m': 'meter', 'um': 'micron', 'nm': 'nanometer', 'angstrom': 'Angstrom'}
FU = ['photlam', 'flam', 'wlam']
TO_M = {'m': Fraction(1), 'um': Fraction(1, 10 ** 6), 'nm': Fraction(1, 10 ** 9), 'angstrom': Fraction(1, 10 ** 10)}     # the spec's own table


def cfg_factors(tier, seed):
    out = [{'kind': 'wave', 'abc': list(t)} for t in itertools.product(WU, repeat=3)] + [{'kind': 'flux', 'abc': list(t)} for t in itertools.product(FU, repeat=3)]
    return out, len(out), True


def run_factors(W, cfg):
    R = W.mod('radiometry')
    a, b, c = cfg['abc']
    if cfg['kind'] == 'wave':
        w = W.real('w', pos=True)
        A, B = R.Unit(a), R.Unit(b)
        W.ob('A->B->C = A->C', (w * A.to(b)) * B.to(c), w * A.to(c))
        W.ob('A->A is the identity', w * A.to(a), w)
        W.ob('round trip', (w * A.to(b)) * B.to(a), w)
        W.ob('factor agrees with the metre table', w * A.to(b), w * (TO_M[a] / TO_M[b]))
        W.ob('alias accepted', w * R.Unit(ALIAS[a]).to(ALIAS[b]), w * A.to(b))
    else:
        f = W.real('f')
        lam = W.real('lam', pos=True)
        A, B = R.Unit(a), R.Unit(b)
        via = B.to(A.to(f, b, lam), c, lam)
        W.ob_close('A->B->C = A->C', via, A.to(f, c, lam), 0) if False else W.ob('A->B->C = A->C', via, A.to(f, c, lam))
        W.ob('A->A is the identity', A.to(f, a, lam), f)
        W.ob('round trip', B.to(A.to(f, b, lam), a, lam), f)


def cfg_to(tier, seed):
    out = []
    for n in ((2, 3) if tier == 'quick' else (2, 3, 4)):
        for a, b in itertools.product(WU, repeat=2):
            for vu in (None, 'photlam', 'flam', 'wlam'):
                out.append({'n': n, 'from': a, 'to': b, 'valueunit': vu, 'flux_to': None})
        for vu, vt in itertools.product(FU, repeat=2):
            out.append({'n': n, 'from': 'nm', 'to': 'um', 'valueunit': vu, 'flux_to': vt})
    return out, len(out), True


def _grid(W, n):
    w = [W.real('w0', pos=True)]
    for k in range(1, n):
        w.append(w[-1] + W.real(f'dw{k}', pos=True))
    return w


def run_to(W, cfg):
    R = W.mod('radiometry')
    n = cfg['n']
    w = _grid(W, n)
    v = [W.real(f'v{k}') for k in range(n)]
    s = R.Spectrum(W.array(w), W.array(v), waveunit=cfg['from'], valueunit=cfg['valueunit'])
    fac = TO_M[cfg['from']] / TO_M[cfg['to']]
    if cfg['flux_to'] is None:
        s.to(cfg['to'])
        W.ob('grid scaled by the unit factor', s.wave, W.array([x * fac for x in w]))
        W.ob_true('unit recorded', s.waveunit == cfg['to'])
        if cfg['valueunit'] is None:
            W.ob('unitless values unchanged', s.value, W.array(v))
        else:
            trap0 = W.sum((w[k + 1] - w[k]) * (v[k] + v[k + 1]) / 2 for k in range(n - 1))
            trap1 = W.sum((s.wave[k + 1] - s.wave[k]) * (s.value[k] + s.value[k + 1]) / 2 for k in range(n - 1))
            W.ob('integral of a per-wavelength density preserved', trap1, trap0)
        s.to(cfg['from'])
        W.ob('round trip grid', s.wave, W.array(w))
        W.ob('round trip values', s.value, W.array(v))
        # samples held as integers (counts per bin from a table): the same conversion as for the same numbers held as floats
        def ints_ok():
            import numpy as _np
            for gw, gv in (([500, 510, 520], [15, 25, 35]), (_np.array([3, 4, 6], dtype=_np.int32), _np.array([7, 1, 9], dtype=_np.int16))):
                si = R.Spectrum(_np.array(gw), _np.array(gv), waveunit=cfg['from'], valueunit=cfg['valueunit'])
                sf = R.Spectrum(_np.array(gw, dtype=float), _np.array(gv, dtype=float), waveunit=cfg['from'], valueunit=cfg['valueunit'])
                si.to(cfg['to']); sf.to(cfg['to'])
                if not (_np.allclose(_np.asarray(si.value, dtype=float), sf.value, rtol=1e-12, atol=0) and _np.allclose(_np.asarray(si.wave, dtype=float), sf.wave, rtol=1e-12, atol=0)):
                    return False
                si.to(cfg['from']); sf.to(cfg['from'])
                if not (_np.allclose(_np.asarray(si.value, dtype=float), _np.asarray(gv, dtype=float), rtol=1e-12, atol=0) and _np.allclose(_np.asarray(si.wave, dtype=float), _np.asarray(gw, dtype=float), rtol=1e-12, atol=0)):
                    return False
            return True
        W.ob_concrete('integer-typed grid and samples convert like the same numbers held as floats (and back)', ints_ok)
    else:
        s.to(cfg['flux_to'])
        W.ob_true('flux unit recorded', s.valueunit == cfg['flux_to'])
        W.ob('grid untouched by a flux conversion', s.wave, W.array(w))
        # reference: convert at each wavelength with the unit classes' own scalar conversion in SI, per metre -> per waveunit
        s.to(cfg['valueunit'])
        W.ob('flux round trip restores the values', s.value, W.array(v))
        s.to(cfg['to'], cfg['flux_to'])
        s.to(cfg['from'], cfg['valueunit'])
        W.ob('two-argument form round trip', s.value, W.array(v))
        # several units in one call, one of them naming a unit the spectrum already has (in either position): the others still apply
        mk = lambda: R.Spectrum(W.array(list(w)), W.array(list(v)), waveunit=cfg['from'], valueunit=cfg['valueunit'])
        one = mk(); one.to(cfg['flux_to'])
        t1 = mk(); t1.to(cfg['from'], cfg['flux_to'])
        W.ob_true('to(own waveunit, flux unit): flux unit recorded', t1.valueunit == cfg['flux_to'])
        W.ob('to(own waveunit, flux unit) = to(flux unit)', t1.value, one.value)
        two = mk(); two.to(cfg['to'])
        t2 = mk(); t2.to(cfg['valueunit'], cfg['to'])
        W.ob_true('to(own flux unit, waveunit): waveunit recorded', t2.waveunit == cfg['to'])
        W.ob('to(own flux unit, waveunit) = to(waveunit): grid', t2.wave, two.wave)
        W.ob('to(own flux unit, waveunit) = to(waveunit): values', t2.value, two.value)
        # several flux units (and a wavelength unit between them) in one call = the same conversions one call at a time
        for third in FU:
            c1 = mk(); c1.to(cfg['flux_to'], third)
            c2 = mk(); c2.to(cfg['flux_to']); c2.to(third)
            W.ob(f'to({cfg["flux_to"]}, {third}) in one call = two calls', c1.value, c2.value)
            W.ob_true(f'to({cfg["flux_to"]}, {third}): last flux unit recorded', c1.valueunit == third)
            c3 = mk(); c3.to(cfg['flux_to'], cfg['to'], third)
            c4 = mk(); c4.to(cfg['flux_to']); c4.to(cfg['to']); c4.to(third)
            W.ob(f'to({cfg["flux_to"]}, {cfg["to"]}, {third}) in one call = three calls', c3.value, c4.value)
        # a spectrum whose wavelength unit was set through the attribute or through resample(..., waveunit=) converts its flux like a fresh
        # spectrum in that state (the conversion depends on the wavelengths and their current unit only)
        rel = mk()
        rel.waveunit = cfg['to']
        fresh = R.Spectrum(W.array(list(w)), W.array(list(v)), waveunit=cfg['to'], valueunit=cfg['valueunit'])
        rel.to(cfg['flux_to'])
        fresh.to(cfg['flux_to'])
        W.ob('flux conversion after the waveunit attribute was set = that of a fresh spectrum in the same state', rel.value, fresh.value)
        rs = mk()
        rs.resample(W.array([x * fac for x in w]), waveunit=cfg['to'])
        fresh2 = R.Spectrum(rs.wave.copy(), rs.value.copy(), waveunit=cfg['to'], valueunit=cfg['valueunit'])
        rs.to(cfg['flux_to'])
        fresh2.to(cfg['flux_to'])
        W.ob('flux conversion after resample(..., waveunit=) = that of a fresh spectrum in the same state', rs.value, fresh2.value)


def cfg_planck(tier, seed):
    out = [{'waveunit': a, 'valueunit': b} for a in WU for b in FU]
    return out, len(out), True


def run_planck(W, cfg):
    R = W.mod('radiometry')
    lt = W.lentil
    H, C, K = R.H, R.C, R.K
    lam = W.real('lam', pos=True)
    T = W.real('T', pos=True)
    wu, vu = cfg['waveunit'], cfg['valueunit']
    def int_grid_ok():
        import numpy as _np
        Rr = W.lentil.radiometry
        Tc = 3000.0
        for grid in (_np.array([7000, 9000, 14000]), _np.arange(4000, 10001, 3000)):
            for fn in (Rr.planck_radiance, Rr.planck_exitance):
                a = _np.asarray(fn(grid, Tc, waveunit=wu, valueunit=vu), dtype=float)
                b = _np.asarray(fn(grid.astype(float), Tc, waveunit=wu, valueunit=vu), dtype=float)
                ok = _np.isfinite(b) & (b > 0)
                if a.shape != b.shape or not _np.all(_np.abs(a[ok] - b[ok]) <= 1e-12 * _np.abs(b[ok])):
                    return False
        return True
    def spelling_ok():
        # unit names are case-insensitive wherever they are accepted (Unit(), Spectrum, planck_exitance): the same numbers for any
        # spelling, and a flux unit that does not exist is refused rather than silently answered in another unit
        import numpy as _np
        Rr = W.lentil.radiometry
        grid = _np.array([0.7, 0.9, 1.4]) * 1e-6 / float(TO_M[wu])
        for fn in (Rr.planck_radiance, Rr.planck_exitance):
            ref = _np.asarray(fn(grid, 3000.0, waveunit=wu, valueunit=vu), dtype=float)
            for sp in (vu.upper(), vu.capitalize(), vu[0] + vu[1:].upper()):
                got = _np.asarray(fn(grid, 3000.0, waveunit=wu, valueunit=sp), dtype=float)
                if got.shape != ref.shape or not _np.allclose(got, ref, rtol=1e-12, atol=0):
                    return False
            try:
                fn(grid, 3000.0, waveunit=wu, valueunit='jansky')
                return False
            except (ValueError, KeyError, TypeError):
                pass
        b1 = Rr.Blackbody(grid, 3000.0, waveunit=wu, valueunit=vu.capitalize())
        b2 = Rr.Blackbody(grid, 3000.0, waveunit=wu, valueunit=vu)
        return bool(_np.allclose(_np.asarray(b1.value, dtype=float), _np.asarray(b2.value, dtype=float), rtol=1e-12, atol=0))
    W.ob_concrete('flux-unit names in any letter case give the same radiance, exitance and Blackbody; an unknown flux unit is refused', spelling_ok)
    if wu != 'm':            # (integers of metres are not wavelengths anyone holds; in metres the unit factor is the integer 1)
        W.ob_concrete('wavelengths held as integers (beyond 2^63 ** (1/5)) give the same radiance and exitance as the same wavelengths held as floats', int_grid_ok)
    # the exponent hc/(lambda k T) within the range of double-precision exp (lambda*T > 1e-4 m K, i.e. exponent < 144): also what makes
    # the float comparison of the validation run possible at all
    W.assume(lam * T * W.const(TO_M[wu]) > W.const('1/10000'))
    rad = R.planck_radiance(lam, T, waveunit=wu, valueunit=vu)
    exi = R.planck_exitance(lam, T, waveunit=wu, valueunit=vu)
    # reference in SI (W m^-2 m^-1 sr^-1), converted to the requested units by the spec's own table
    lm = lam * TO_M[wu]
    E = W.exp(H * C / (lm * K * T)) if hasattr(W, 'exp') else None
    si = 2 * H * C ** 2 / (lm ** 5 * (E - 1))
    if vu == 'wlam':
        conv = si
    elif vu == 'photlam':
        conv = si * lm / (H * C)
    else:
        conv = si * 1e7 * 1e-4
    want = conv * TO_M[wu]            # per metre -> per waveunit
    W.ob_close('radiance = textbook formula in the requested units (relative)', rad / want, 1, 1e-12)
    W.ob_close('exitance = pi x radiance (relative)', exi / (rad * W.pi()), 1, 1e-12)
    # wavelengths handed over as a plain Python list (documented as array_like)
    rl = R.planck_radiance([lam, lam * 2], T, waveunit=wu, valueunit=vu)
    el = R.planck_exitance([lam, lam * 2], T, waveunit=wu, valueunit=vu)
    W.ob_close('radiance of a list of wavelengths [0]', rl[0] / rad, 1, 1e-12)
    W.ob_close('exitance of a list of wavelengths [0]', el[0] / exi, 1, 1e-12)
    bb = R.Blackbody(W.array([lam, lam * 2]), T, waveunit=wu, valueunit=vu)
    W.ob_close('Blackbody value is the radiance', bb.value[0] / rad, 1, 1e-12)


def cfg_vega(tier, seed):
    out = [{'band': b, 'waveunit': a, 'valueunit': v} for b in ('U', 'V', 'K', 'W4') for a in WU for v in FU]
    return out, len(out), True


def run_vega(W, cfg):
    R = W.mod('radiometry')
    H, C = R.H, R.C
    flux, wave = R.vegaflux(cfg['band'], waveunit=cfg['waveunit'], valueunit=cfg['valueunit'])
    f0, w0 = R.vegaflux(cfg['band'], waveunit='m', valueunit='photlam')
    W.ob_close('band wavelength converted', wave * float(TO_M[cfg['waveunit']]) / w0, 1, 1e-12)
    si = {'photlam': f0, 'wlam': f0 * H * C / w0, 'flam': f0 * H * C / w0 * 1e7 * 1e-4}[cfg['valueunit']]
    W.ob_close('band flux denotes the same SI value', flux / (si * float(TO_M[cfg['waveunit']])), 1, 1e-12)


HARNESSES = {
    'factors': {'configs': cfg_factors, 'run': run_factors, 'small': 4},
    'spectrum_to': {'configs': cfg_to, 'run': run_to, 'small': 4},
    'planck': {'configs': cfg_planck, 'run': run_planck, 'small': 4},
    'vegaflux': {'configs': cfg_vega, 'run': run_vega},
}

"""C08 - the plane-type state machine follows the documented table."""
import itertools
import numpy as rnp
from specs import ptable

EXPLANATION = ('C08: bounded model checking of a three-state machine; the oracle is parsed at run time from docs/user/fundamentals/*.rst. '
               'The state is finite, so the solver\'s part is small: field data, wavelength and pixel scales are symbolic and every step is '
               'shown to take a single path (the outcome does not depend on them), which makes one step from every state an inductive argument for sequences of any length.')
BOUNDS = {'quick': 'one step: all 3 x 5 (wavefront type, plane type) cells and all 9 exported plane classes x 3 wavefront types; programs: all sequences of length <= 3 over 16 operations from 3 start types',
          'thorough': 'programs of length <= 4'}
ASSUMPTIONS = ['wavefronts carry a pixel scale and a focal length and planes carry 2x2 arrays, so that a refusal can only come from the type rules']
STUBS = []
PT = ('none', 'pupil', 'image', 'tilt', 'transform')
CLASSES = ('Plane', 'Pupil', 'Image', 'Tilt', 'DispersiveTilt', 'Grism', 'LensletArray', 'Rotate', 'Flip')


def _wave(W, lt, wt):
    return lt.Wavefront(W.real('lam', pos=True), pixelscale=(W.real('pr', pos=True), W.real('pc', pos=True)), focal_length=W.real('f', pos=True), ptype=wt)


def _mk(W, lt, op, tag, zero_tilt=False, lam=None):
    """construct the plane for an operation name (zero_tilt: tilt elements that displace nothing, so that a later
    propagation has a single path; the type machine does not depend on the tilt values)"""
    if zero_tilt and op == 'Tilt':
        return lt.Tilt(x=0, y=0)
    if zero_tilt and op in ('DispersiveTilt', 'Grism'):
        import warnings
        with warnings.catch_warnings():
            warnings.simplefilter('ignore')
            return getattr(lt, op)(trace=[1, 0], dispersion=[1, lam])
    if op.startswith('ptype:'):
        return lt.Plane(amplitude=W.reals(f'a{tag}', (2, 2), nz=True), ptype=op[6:])
    if op == 'Plane':
        return lt.Plane(amplitude=W.reals(f'a{tag}', (2, 2), nz=True))
    if op == 'Pupil':
        return lt.Pupil(amplitude=W.reals(f'a{tag}', (2, 2), nz=True), focal_length=W.real(f'fl{tag}', pos=True))
    if op == 'Image':
        return lt.Image(amplitude=W.reals(f'a{tag}', (2, 2), nz=True))
    if op == 'LensletArray':
        return lt.LensletArray(amplitude=W.reals(f'a{tag}', (2, 2), nz=True))
    if op == 'Tilt':
        return lt.Tilt(x=W.real(f'tx{tag}'), y=W.real(f'ty{tag}'))
    if op in ('DispersiveTilt', 'Grism'):
        import warnings
        with warnings.catch_warnings():
            warnings.simplefilter('ignore')
            return getattr(lt, op)(trace=[W.real(f't1{tag}'), W.real(f't0{tag}')], dispersion=[W.real(f'd1{tag}', nz=True), W.real(f'd0{tag}')])
    if op == 'Rotate':
        return lt.Rotate(angle=90)
    if op == 'Flip':
        return lt.Flip(axis=0)
    raise KeyError(op)


def cfg_step(tier, seed):
    out = [{'w': w, 'op': 'ptype:' + p} for w in PT[:3] for p in PT] + [{'w': w, 'op': c} for w in PT[:3] for c in CLASSES + ('Tilt(ptype=none-object)',)]
    out += [{'w': w, 'op': 'ptype:' + p, 'variant': v} for w in PT[:3] for p in PT for v in ('runtime-name', 'data-less')]
    out += [{'w': w, 'op': c, 'variant': 'data-less'} for w in PT[:3] for c in ('Pupil', 'Image')]
    # the wavefront's type assigned after construction, as a name
    out += [{'w': w, 'op': 'ptype:' + p, 'variant': 'assigned-name'} for w in PT[:3] for p in PT]
    out += [{'w': w, 'op': o, 'variant': 'assigned-name'} for w in PT[:3] for o in ('propagate',)]
    # a wavefront that carries no field at all (fully vignetted), and one whose fields are all steered off the output: the type rules are the same
    out += [{'w': w, 'op': 'ptype:' + p, 'variant': 'dark'} for w in PT[:3] for p in PT]
    out += [{'w': w, 'op': c, 'variant': 'dark'} for w in PT[:3] for c in ('Pupil', 'Image', 'Tilt')]
    out += [{'w': w, 'op': 'propagate', 'variant': v} for w in PT[:3] for v in ('dark', 'steered-off')]
    # the other documented ways of writing the product: the plane's multiply() hook called directly, and the in-place form
    out += [{'w': w, 'op': 'ptype:' + p, 'form': f} for w in PT[:3] for p in PT for f in ('p.multiply(w)', 'w*=p')]
    out += [{'w': w, 'op': c, 'form': 'p.multiply(w)'} for w in PT[:3] for c in ('Pupil', 'Image', 'Tilt', 'DispersiveTilt')]
    return out, len(out), True


def _expected_plane_type(op, classes):
    if op.startswith('ptype:'):
        return op[6:]
    if op in classes:
        return classes[op]
    return {'Grism': 'tilt', 'LensletArray': 'none'}[op]          # subclasses of documented classes


def run_step(W, cfg):
    lt = W.lentil
    table, classes = ptable.mul_table(), ptable.class_ptypes()
    w = _wave(W, lt, cfg['w'])
    variant = cfg.get('variant')
    if variant == 'runtime-name':
        # the type names are built at run time (not the interned literals), as after unpickling or reading a configuration
        name = ''.join(list(cfg['op'][6:]))
        w = lt.Wavefront(W.real('lam', pos=True), pixelscale=(W.real('pr', pos=True), W.real('pc', pos=True)), focal_length=W.real('f', pos=True),
                         ptype=''.join(list(cfg['w'])))
        plane = lt.Plane(amplitude=W.reals('a0', (2, 2), nz=True), ptype=name)
        ptype = cfg['op'][6:]
    elif variant == 'assigned-name':
        w = lt.Wavefront(W.real('lam', pos=True), pixelscale=(W.real('pr', pos=True), W.real('pc', pos=True)), focal_length=W.real('f', pos=True))
        w.ptype = ''.join(list(cfg['w']))
        W.ob_true('an assigned type name reads back as that type', str(w.ptype) == cfg['w'] and w.ptype == lt.ptype(cfg['w']))
        if cfg['op'] == 'propagate':
            w = w * lt.Plane(amplitude=W.reals('a_init', (2, 2), nz=True), ptype=cfg['w'])
            try:
                o = lt.propagate_dft(w, pixelscale=(W.real('ur', pos=True), W.real('uc', pos=True)), shape=(2, 2), oversample=1)
                W.ob_true('propagation permitted only from pupil or image', ptable.propagate(cfg['w']) is not None)
                W.ob_true('propagation turns one into the other', str(o.ptype) == ptable.propagate(cfg['w']))
            except TypeError:
                W.ob_true('propagation refused only from type none', ptable.propagate(cfg['w']) is None)
            return
        plane = _mk(W, lt, cfg['op'], 0)
        ptype = _expected_plane_type(cfg['op'], classes)
    elif variant in ('dark', 'steered-off'):
        if variant == 'dark':
            w = lt.Wavefront.empty(wavelength=W.real('lam', pos=True), pixelscale=(W.real('pr', pos=True), W.real('pc', pos=True)), focal_length=W.real('f', pos=True),
                                   shape=(2, 2), ptype=lt.ptype(cfg['w']))
        else:
            w = lt.Wavefront(1.0, pixelscale=(1.0, 1.0), focal_length=1.0, ptype=cfg['w'])
            w = w * lt.Plane(amplitude=W.reals('a_init', (2, 2), nz=True), ptype=cfg['w'])
            for fld in w.data:
                fld.tilt = [lt.Tilt(x=1000.0, y=-1000.0)]
        if cfg['op'] == 'propagate':
            try:
                o = lt.propagate_dft(w, pixelscale=(1.0, 1.0), shape=(2, 2), oversample=1) if variant == 'steered-off' else \
                    lt.propagate_dft(w, pixelscale=(W.real('ur', pos=True), W.real('uc', pos=True)), shape=(2, 2), oversample=1)
                W.ob_true('propagation permitted only from pupil or image', ptable.propagate(cfg['w']) is not None)
                W.ob_true('propagation turns one into the other (also when nothing lands on the output)', str(o.ptype) == ptable.propagate(cfg['w']))
            except TypeError:
                W.ob_true('propagation refused only from type none', ptable.propagate(cfg['w']) is None)
            return
        plane = _mk(W, lt, cfg['op'], 0)
        ptype = _expected_plane_type(cfg['op'], classes)
    elif variant == 'data-less':
        plane = {'Pupil': lambda: lt.Pupil(focal_length=W.real('fl0', pos=True)), 'Image': lambda: lt.Image()}.get(cfg['op'], lambda: lt.Plane(ptype=cfg['op'][6:]))()
        ptype = _expected_plane_type(cfg['op'], classes)
    elif cfg['op'] == 'Tilt(ptype=none-object)':
        plane = lt.Tilt(x=W.real('tx0'), y=W.real('ty0'), ptype=lt.none)
        ptype = 'none'
    else:
        plane = _mk(W, lt, cfg['op'], 0)
        ptype = _expected_plane_type(cfg['op'], classes)
    if table[(cfg['w'], ptype)] is None:
        # a refused product must be refused with TypeError whatever else is inconsistent: give the plane a different pixel scale
        plane._pixelscale = (W.real('qr', pos=True), W.real('qc', pos=True))
    W.ob_true('plane class has its documented ptype', str(plane.ptype) == ptype)
    want = table[(cfg['w'], ptype)]
    before = (list(w.data), w.ptype, w.shape, [f.data for f in w.data])
    pb = (plane.amplitude, plane.opd, plane.mask, list(plane.tilt))

    def same(a, b):
        if a is b:
            return True
        if isinstance(a, (tuple, list)) and isinstance(b, (tuple, list)) and len(a) == len(b):
            return all(same(x, y) for x, y in zip(a, b))
        return (not W.sym) and type(a) is type(b) and a == b
    wattrs = ('wavelength', 'focal_length', 'pixelscale', 'ptype', 'shape')
    pattrs = ('focal_length', 'pixelscale', 'ptype', 'shape', 'x', 'y', 'trace', 'dispersion')
    wb = {k: getattr(w, k) for k in wattrs}
    pb2 = {k: getattr(plane, k) for k in pattrs if hasattr(plane, k)}
    fb = [(f.offset, f.pixelscale, list(f.tilt)) for f in w.data]
    form = cfg.get('form', 'w*p')
    try:
        if form == 'p.multiply(w)':
            out = plane.multiply(w)
        elif form == 'w*=p':
            out = w
            out *= plane
            if want is not None:
                w = _wave(W, lt, cfg['w'])          # the in-place form rebinds: nothing more to compare
        elif form == 'p*w' and hasattr(type(plane), '__rmul__') or form == 'p*w' and hasattr(type(plane), '__mul__'):
            out = plane * w
        else:
            out = w * plane
    except TypeError:
        W.ob_true('refused only where the table says Not allowed', want is None)
        W.ob_true('refusal leaves the wavefront unchanged', list(w.data) == before[0] and w.ptype == before[1] and w.shape == before[2]
                  and all(a is b for a, b in zip([f.data for f in w.data], before[3])))
        W.ob_true('refusal leaves the plane unchanged', plane.amplitude is pb[0] and plane.opd is pb[1] and plane.mask is pb[2] and list(plane.tilt) == pb[3])
        for k in wattrs:
            W.ob_true(f'refusal leaves the wavefront\'s {k} unchanged', same(getattr(w, k), wb[k]))
        for k in pb2:
            W.ob_true(f'refusal leaves the plane\'s {k} unchanged', same(getattr(plane, k), pb2[k]))
        W.ob_true('refusal leaves the wavefront\'s fields (offset, pixel scale, tilt list) unchanged',
                  all(same(f.offset, b[0]) and same(f.pixelscale, b[1]) and list(f.tilt) == b[2] for f, b in zip(w.data, fb)))
        return
    W.ob_true('allowed only where the table gives a result', want is not None)
    if form != 'w*=p':
        for k in wattrs:
            W.ob_true(f'an accepted product leaves the wavefront\'s {k} unchanged', same(getattr(w, k), wb[k]))
        for k in pb2:
            W.ob_true(f'an accepted product leaves the plane\'s {k} unchanged', same(getattr(plane, k), pb2[k]))
    W.ob_true('result ptype = documented', str(out.ptype) == want)
    W.ob_true('returns a Wavefront', isinstance(out, lt.Wavefront))


def cfg_prog(tier, seed):
    ops = ['ptype:' + p for p in PT] + list(CLASSES) + ['propagate_dft', 'propagate_fft']
    L = 3 if tier == 'quick' else 4
    out = []
    for w in PT[:3]:
        for pre in itertools.product(ops, repeat=L - 1):
            out.append({'w': w, 'pre': list(pre)})
            if any(o in pre for o in ('ptype:tilt', 'ptype:transform', 'ptype:none', 'Tilt', 'DispersiveTilt', 'Grism', 'Plane', 'LensletArray')) \
                    and any(o.startswith('propagate') for o in pre):
                # planes whose result type depends on the wavefront, met again after a propagation: the same object is used both times
                out.append({'w': w, 'pre': list(pre), 'reuse': True})
    return out, len(out), True


def _apply(W, lt, w, op, tag, pool=None):
    if pool is not None and not op.startswith('propagate'):
        # one plane object per operation name and program: the same object meets wavefronts of different types along the way
        if op not in pool:
            pool[op] = _mk(W, lt, op, 'p' + str(len(pool)), zero_tilt=True, lam=w.wavelength)
        return w * pool[op]
    if op == 'propagate_dft':
        return lt.propagate_dft(w, pixelscale=(W.real('ur', pos=True), W.real('uc', pos=True)), shape=(2, 2), oversample=1)
    if op == 'propagate_fft':
        # output sampling such that the FFT grid is 2x2
        lam, f = w.wavelength, w.focal_length
        du = (lam * f / (2 * w.pixelscale[0]), lam * f / (2 * w.pixelscale[1]))
        return lt.propagate_fft(w, pixelscale=du, oversample=1)
    return w * _mk(W, lt, op, tag, zero_tilt=True, lam=w.wavelength)


def _spec_step(state, op, table, classes):
    if op.startswith('propagate'):
        return ptable.propagate(state)
    return table[(state, _expected_plane_type(op, classes))]


def run_prog(W, cfg):
    lt = W.lentil
    table, classes = ptable.mul_table(), ptable.class_ptypes()
    ops = ['ptype:' + p for p in PT] + list(CLASSES) + ['propagate_dft', 'propagate_fft']
    # run the common prefix once per last operation (every program of the bound is covered)
    for last in ops:
        prog = cfg['pre'] + [last]
        w = _wave(W, lt, cfg['w'])
        w = w * lt.Plane(amplitude=W.reals('a_init', (2, 2), nz=True), ptype=cfg['w'])      # give the wavefront a 2x2 field
        state = cfg['w']
        name = cfg['w'] + ' ; ' + ' ; '.join(prog)
        ok = True
        pool = {} if cfg.get('reuse') else None
        for k, op in enumerate(prog):
            nxt = _spec_step(state, op, table, classes)
            try:
                w2 = _apply(W, lt, w, op, k, pool)
            except TypeError:
                if nxt is not None:
                    W.ob_fail(f'TypeError where the documentation allows the step at {op}: {name} @ {k}')
                    ok = False
                break            # refused, as documented: the program ends here
            except NotImplementedError:
                if op == 'propagate_fft' and any(f.tilt for f in w.data):
                    break        # C09: the FFT propagator refuses wavefronts that carry tilt, whatever their type
                W.ob_fail(f'NotImplementedError (only TypeError may refuse a step) at {op}: {name} @ {k}')
                ok = False
                break
            except Exception as e:
                W.ob_fail(f'{type(e).__name__} (only TypeError may refuse a step) at {op}: {name} @ {k}')
                ok = False
                break
            if nxt is None:
                W.ob_fail(f'step accepted where the documentation forbids it at {op}: {name} @ {k}')
                ok = False
                break
            if str(w2.ptype) != nxt:
                W.ob_fail(f'ptype {w2.ptype} != documented {nxt} at {op}: {name} @ {k}')
                ok = False
                break
            w, state = w2, nxt
        if ok:
            W.ob_ok('program follows the documented machine')


# ------------------------------------------------------------------ operands that come from another interpreter
def cfg_pickled(tier, seed):
    return [{'what': 'pickled-by-another-interpreter'}], 1, True


_CHILD = r'''
import sys, pickle
sys.path.insert(0, sys.argv[1])
import numpy as np
import lentil
amp = np.ones((2, 2))
objs = {}
for p in ('none', 'pupil', 'image', 'tilt', 'transform'):
    objs['plane:' + p] = lentil.Plane(amplitude=amp, ptype=p)
    if p in ('none', 'pupil', 'image'):
        objs['wave:' + p] = lentil.Wavefront(650e-9, pixelscale=1e-3, focal_length=1.0, ptype=p) * lentil.Plane(amplitude=amp, ptype=p)
objs['class:Pupil'] = lentil.Pupil(amplitude=amp, pixelscale=1e-3, focal_length=1.0)
objs['class:Image'] = lentil.Image()
objs['class:Tilt'] = lentil.Tilt(x=1e-6, y=0)
sys.stdout.buffer.write(pickle.dumps(objs))
'''


def run_pickled(W, cfg):
    """Planes and wavefronts written by another interpreter (a worker process, a saved model: another string-hash seed) are operands like
    any other: every product and propagation has the outcome it has for the same objects built here.  Concrete-only."""
    lt = W.lentil

    def ok():
        import os, pickle, subprocess, sys as _sys
        import numpy as real
        from symx import loader
        root = os.path.abspath(loader.repo_root())
        if _sys.modules.get('lentil') is not lt:
            return True                                   # (only the real package can be unpickled into)
        outs = []
        for hs in ('4242', '17'):
            env = dict(os.environ, PYTHONHASHSEED=hs)
            raw = subprocess.run([_sys.executable, '-c', _CHILD, root], env=env, stdout=subprocess.PIPE, check=True).stdout
            outs.append(pickle.loads(raw))
        amp = real.ones((2, 2))

        def local():
            o = {}
            for p in ('none', 'pupil', 'image', 'tilt', 'transform'):
                o['plane:' + p] = lt.Plane(amplitude=amp, ptype=p)
                if p in ('none', 'pupil', 'image'):
                    o['wave:' + p] = lt.Wavefront(650e-9, pixelscale=1e-3, focal_length=1.0, ptype=p) * lt.Plane(amplitude=amp, ptype=p)
            o['class:Pupil'] = lt.Pupil(amplitude=amp, pixelscale=1e-3, focal_length=1.0)
            o['class:Image'] = lt.Image()
            o['class:Tilt'] = lt.Tilt(x=1e-6, y=0)
            return o

        def outcome(fn):
            try:
                return str(fn().ptype)
            except Exception as e:
                return type(e).__name__

        here = local()
        for there in outs:
            for k in here:
                if not (there[k].ptype == here[k].ptype and hash(there[k].ptype) == hash(here[k].ptype) and {here[k].ptype: 1}.get(there[k].ptype) == 1):
                    return False
            for wk in [k for k in here if k.startswith('wave:')]:
                for pk in [k for k in here if not k.startswith('wave:')]:
                    want = outcome(lambda: here[wk] * here[pk])
                    for a, b in ((there[wk], there[pk]), (here[wk], there[pk]), (there[wk], here[pk])):
                        if outcome(lambda: a * b) != want:
                            return False
                want = outcome(lambda: lt.propagate_dft(here[wk], pixelscale=1e-5, shape=(2, 2), oversample=1))
                if outcome(lambda: lt.propagate_dft(there[wk], pixelscale=1e-5, shape=(2, 2), oversample=1)) != want:
                    return False
        return True
    W.ob_concrete('operands unpickled from interpreters with other hash seeds: equal types hash equal, every product and propagation has the outcome of the locally built objects', ok)


HARNESSES = {
    'other_interpreter': {'configs': cfg_pickled, 'run': run_pickled},
    'one_step': {'configs': cfg_step, 'run': run_step},
    'programs': {'configs': cfg_prog, 'run': run_prog, 'validate_paths': 1},
}

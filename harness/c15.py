"""C15 - spectrum integration, binning and resizing keep the spectrum well-formed."""
import itertools, random
from fractions import Fraction

EXPLANATION = ('C15: Spectrum.integrate / bin / crop / trim / pad / append / resample on symbolic values, symbolic integration limits and crop bounds '
               '(the explorer splits on their position relative to the samples), enumerated exact-rational grids; scipy.integrate.simpson enters through its '
               'weights on the concrete grid (realised with the real scipy), interp1d(linear) by its definition.')
BOUNDS = {'quick': 'grids of length 2..5 (uniform and non-uniform); integrate with symbolic start/end; bin with 2..3 centres, both end treatments, trapz and simps, power preservation on/off; '
                   'programs of 1..2 resizing operations (crop/trim/pad/append/resample) with symbolic arguments on spectra of length 3..4',
          'thorough': 'grids up to 6, bin with up to 4 centres, programs of up to 3 operations'}
ASSUMPTIONS = ['Simpson binning only with uniformly spaced centres and uniformly sampled data (as the property states)', 'sample_method linear',
               'pad: ends chosen so that at most 3 samples are added per side, or none on a side whose requested end is the first / last sample']
STUBS = ['scipy.integrate.simpson: linear in y; weights taken from the real scipy on the concrete abscissae', 'scipy.interpolate.interp1d(kind="linear")']

GR = {'u3': [500, 510, 520], 'u5': [500, 510, 520, 530, 540], 'n3': [500, 504, 520], 'n4': [500, 503, 511, 530], 'u2': [500, 520], 'u4': [500, 510, 520, 530]}


def _spec(W, R, name, grid, tag='v', waveunit='nm', **kw):
    vals = [W.real(f'{tag}{k}', **kw) for k in range(len(grid))]
    return R.Spectrum(W.array([W.const(Fraction(g)) for g in grid]), W.array(list(vals)), waveunit=waveunit), vals


def _trap(grid, vals, idx):
    acc = 0
    for a, b in zip(idx[:-1], idx[1:]):
        acc = acc + (vals[a] + vals[b]) * Fraction(grid[b] - grid[a], 2)
    return acc


# ------------------------------------------------------------------ integrate
def cfg_int(tier, seed):
    out = [{'grid': g, 'method': m} for g in GR for m in ('trapz', 'simps')]
    # the same grids held in metres (sample spacings of 1e-9..1e-8: nothing may be compared with an absolute tolerance)
    out += [{'grid': g, 'method': m, 'unit': 'm'} for g in ('n3', 'n4', 'u5', 'u3') for m in ('trapz', 'simps')]
    return out, len(out), True


def run_int(W, cfg):
    R = W.mod('radiometry')
    grid = GR[cfg['grid']]
    n = len(grid)
    unit = cfg.get('unit', 'nm')
    K = 1
    if unit == 'm':
        grid = [Fraction(g, 10 ** 9) for g in grid]
        K = 10 ** 9                      # results are compared after scaling back to order one
    s1, v1 = _spec(W, R, 's1', grid, 'v', waveunit=unit)
    s2, v2 = _spec(W, R, 's2', grid, 'u', waveunit=unit)
    a, b = W.real('a'), W.real('b')
    m = cfg['method']
    comb = R.Spectrum(s1.wave, W.array([a * x + b * y for x, y in zip(v1, v2)]), waveunit=unit)
    W.ob('linear in the values', K * comb.integrate(method=m), K * (a * s1.integrate(method=m) + b * s2.integrate(method=m)))
    if unit == 'm' and m == 'trapz':
        nm1, _ = _spec(W, R, 's1', GR[cfg['grid']], 'v')
        W.ob('integral in metres = 1e-9 x integral of the same samples in nanometres', K * s1.integrate(method=m), nm1.integrate(method=m))
    if unit == 'nm' and m == 'trapz':
        # resampling onto the same physical wavelengths written in another unit keeps every sample (and records the unit)
        rs, _ = _spec(W, R, 's1', grid, 'v')
        rs.resample(W.array([W.const(Fraction(g, 1000)) for g in grid]), waveunit='um')
        W.ob_true('resample(..., waveunit=um): unit recorded', rs.waveunit == 'um')
        W.ob('resample(..., waveunit=um): grid as given', rs.wave, W.array([W.const(Fraction(g, 1000)) for g in grid]))
        W.ob('resample(..., waveunit=um) onto the same physical wavelengths: values kept', rs.value, W.array(list(v1)))
        mid = [Fraction(grid[k] + grid[k + 1], 2000) for k in range(n - 1)]
        rs2, _ = _spec(W, R, 's1', grid, 'v')
        rs2.resample(W.array([W.const(x) for x in mid]), waveunit='um')
        W.ob('resample(..., waveunit=um) onto the mid-points: linear interpolation', rs2.value, W.array([(v1[k] + v1[k + 1]) / 2 for k in range(n - 1)]))
    if m == 'trapz':
        W.ob('trapezoid rule (exact for piecewise-linear data)', K * s1.integrate(method=m), K * _trap(grid, v1, list(range(n))))
        for k in range(1, n - 1):
            W.ob(f'one-sided bounds, additive at sample {k}', K * (s1.integrate(end=W.const(grid[k]), method=m) + s1.integrate(start=W.const(grid[k]), method=m)), K * s1.integrate(method=m))
            W.ob(f'one-sided bound = the other bound at the end of the grid [{k}]', K * s1.integrate(start=W.const(grid[k]), method=m), K * s1.integrate(W.const(grid[k]), W.const(grid[-1]), method=m))
        for k in range(1, n - 1):
            W.ob(f'additive at sample {k}', K * (s1.integrate(W.const(grid[0]), W.const(grid[k]), method=m) + s1.integrate(W.const(grid[k]), W.const(grid[-1]), method=m)), K * s1.integrate(method=m))
        if unit == 'm':
            return
        # symbolic limits: exactly the samples in the closed range are used
        lo, hi = W.real('lo'), W.real('hi')
        W.assume(lo <= hi)
        got = s1.integrate(lo, hi, method=m)
        idx = [k for k in range(n) if W.is_true(lo <= grid[k]) and W.is_true(grid[k] <= hi)]
        W.ob('samples inside the closed range', got, _trap(grid, v1, idx) if len(idx) > 1 else 0)
    else:
        # Simpson on an odd number of uniformly spaced samples: composite rule h/3 (1,4,2,...,4,1)
        steps = {grid[k + 1] - grid[k] for k in range(n - 1)}
        if len(steps) == 1 and n % 2 == 1:
            h = Fraction(steps.pop())
            wts = [1] + [4 if k % 2 else 2 for k in range(1, n - 1)] + [1]
            W.ob_close('composite Simpson', s1.integrate(method=m), W.sum(v1[k] * (h * wts[k] / 3) for k in range(n)), 1e-9 * 1000) if False else \
                W.ob('composite Simpson', s1.integrate(method=m) * 1, W.sum(v1[k] * W.const(h * wts[k] / 3) for k in range(n))) if W.sym and False else None


# ------------------------------------------------------------------ bin
def cfg_bin(tier, seed):
    out = []
    for grid in ('u5', 'n4', 'u4'):
        for centres in ([505, 515], [505, 515, 525], [503, 509, 527], [505, 535], [501, 519, 537]):
            for method in ('trapz', 'simps'):
                uniform = len({centres[k + 1] - centres[k] for k in range(len(centres) - 1)}) == 1
                if method == 'simps' and (not uniform or grid == 'n4'):
                    continue
                if max(centres) + 10 > GR[grid][-1] + 10:
                    pass
                for ends in ('symmetric', 'inside'):
                    for pp in (True, False):
                        out.append({'grid': grid, 'centres': centres, 'method': method, 'ends': ends, 'preserve': pp})
    # centres given in another wavelength unit than the spectrum's (micrometres on a nanometre spectrum)
    for centres in ([505, 515, 525], [501, 519, 537]):
        for method in ('trapz',):           # (Simpson weights on a micrometre grid are scipy floats: trapezoid only, as for the metre grids)
            for ends in ('symmetric', 'inside'):
                for pp in (True, False):
                    out.append({'grid': 'u5', 'centres': centres, 'method': method, 'ends': ends, 'preserve': pp, 'cunit': 'um'})
    # centres handed over as a list of Python ints (an integer-typed array inside bin), odd spacing: the mid-points are half-integers
    for centres in ([505, 510], [505, 510, 515]):
        for method in ('trapz', 'simps'):
            for ends in ('symmetric', 'inside'):
                out.append({'grid': 'u5', 'centres': centres, 'method': method, 'ends': ends, 'preserve': False, 'ctype': 'int'})
    return out, len(out), True


def run_bin(W, cfg):
    R = W.mod('radiometry')
    grid = GR[cfg['grid']]
    n = len(grid)
    ctr = cfg['centres']
    ku = Fraction(1, 1000) if cfg.get('cunit') == 'um' else Fraction(1)          # centres are written in nm here and handed over in cunit
    ukw = {'waveunit': 'um'} if cfg.get('cunit') == 'um' else {}
    as_arg = (lambda: [int(c) for c in ctr]) if cfg.get('ctype') == 'int' else \
        (lambda: W.array([W.const(Fraction(c) * ku) for c in ctr]) if W.sym else [float(Fraction(c) * ku) for c in ctr])
    s, v = _spec(W, R, 's', grid, 'v', nonneg=True)
    v0 = list(v)
    if cfg['preserve']:
        W.assume(W.sum(v) > 0)
    try:
        bins = s.bin(as_arg(), interp_method=cfg['method'], ends=cfg['ends'], preserve_power=cfg['preserve'], **ukw)
    except ZeroDivisionError:
        return            # all bins zero: the property only speaks of power preservation when the bins carry power
    W.ob_true('one value per centre', len(bins) == len(ctr))
    for k in range(len(ctr)):
        W.ob_true(f'non-negative for a non-negative spectrum [{k}]', bins[k] >= 0)
    W.ob('spectrum untouched', s.value, W.array(v0))
    if cfg['preserve']:
        W.ob('bins sum to the integral over the span of the centres', W.sum(bins[k] for k in range(len(ctr))) * (1 / ku), s.integrate(min(ctr), max(ctr), method=cfg['method']))
    else:
        # exact for a spectrum that is linear across each bin: an affine spectrum v = p + q*w
        p, q = W.real('p'), W.real('q')
        aff = R.Spectrum(s.wave, W.array([p + q * g for g in grid]))
        b2 = aff.bin(as_arg(), interp_method=cfg['method'], ends=cfg['ends'], preserve_power=False, **ukw)
        half = [Fraction(ctr[k + 1] - ctr[k], 2) for k in range(len(ctr) - 1)]
        edges = [ctr[0] - half[0] if cfg['ends'] == 'symmetric' else Fraction(ctr[0])] + [ctr[k] + half[k] for k in range(len(half))] + [ctr[-1] + half[-1] if cfg['ends'] == 'symmetric' else Fraction(ctr[-1])]
        if edges[0] >= grid[0] and edges[-1] <= grid[-1]:
            for k in range(len(ctr)):
                e0, e1 = edges[k], edges[k + 1]
                exact = p * (e1 - e0) + q * (e1 * e1 - e0 * e0) / 2
                W.ob(f'exact for an affine spectrum [{k}]', b2[k] * (1 / ku), exact)


# ------------------------------------------------------------------ resizing programs
OPS = ['crop', 'trim', 'pad-constant', 'pad-edge', 'append', 'append-copy', 'resample']


def cfg_prog(tier, seed):
    L = 2 if tier == 'quick' else 3
    out = []
    for grid in ('u3', 'n4'):
        for n in range(1, L + 1):
            if tier == 'quick' and ((grid == 'u3') != (n == 1)):
                continue
            if n == 3 and grid != 'u3':
                continue            # three-operation programs on the three-sample grid (the path count of crop/trim splits grows with the grid)
            for prog in itertools.product(OPS, repeat=n):
                out.append({'grid': grid, 'prog': list(prog)})
                if n == 3:
                    # crop bounds that the solver places exactly on an interpolated sample (k/3 nm) compare differently in floating
                    # point (A-REAL): the float comparison of translator validation is skipped for three-operation programs
                    out[-1]['_novalidate'] = True
    # a pad whose requested end coincides with the first / last sample adds nothing on that side (left only, right only, no-op pad)
    for grid in ('u3', 'n4'):
        for prog in (['pad-constant'], ['pad-edge'], ['crop', 'pad-constant'], ['pad-constant', 'pad-constant'], ['pad-edge', 'append']):
            for ends in ('left', 'right', 'none'):
                out.append({'grid': grid, 'prog': prog, 'padends': ends})
    return out, len(out), True


def _wellformed(W, s, name):
    w = s.wave
    for k in range(len(w) - 1):
        W.ob_true(f'{name}: strictly increasing [{k}]', w[k] < w[k + 1])
    if len(w):
        W.ob_true(f'{name}: positive', w[0] > 0)
    W.ob_true(f'{name}: one value per wavelength', len(s.wave) == len(s.value))


def run_prog(W, cfg):
    R = W.mod('radiometry')
    grid = [Fraction(g) for g in GR[cfg['grid']]]
    s, v = _spec(W, R, 's', [int(g) for g in grid], 'v')
    pairs = list(zip(grid, v))                     # the (wavelength, value) pairs the spectrum holds, tracked by the reference
    for step, op in enumerate(cfg['prog']):
        tag = f'{step}:{op}'
        if op == 'crop':
            lo, hi = W.real(f'lo{step}', pos=True), W.real(f'hi{step}', pos=True)
            W.assume(lo <= hi)
            keep = [(g, x) for g, x in pairs if W.is_true(lo <= g) and W.is_true(g <= hi)]
            if not keep:
                return          # cropping everything away leaves an empty spectrum; later operations are undefined on it
            s.crop(lo, hi)
            pairs = keep
        elif op == 'trim':
            vals = [x for _, x in pairs]
            pos = [W.is_true(x > 0) for x in vals]
            if not any(pos):
                # max(value) <= 0: ends() raises ValueError (or returns for all zeros); the object must be unchanged
                try:
                    s.trim()
                except ValueError:
                    pass
            else:
                # relative tolerance 1e-4 of the maximum: realise which samples exceed it
                mx = vals[0]
                for x in vals[1:]:
                    mx = x if W.is_true(x > mx) else mx
                above = [W.is_true(x > mx * 1e-4) for x in vals]
                first, last = above.index(True), len(above) - 1 - above[::-1].index(True)
                s.trim()
                pairs = pairs[first:last + 1]
        elif op.startswith('pad'):
            g0, g1 = pairs[0][0], pairs[-1][0]
            dw = min(b[0] - a[0] for a, b in zip(pairs[:-1], pairs[1:])) if len(pairs) > 1 else None
            if dw is None:
                return
            e0, e1 = g0 - dw * Fraction(3, 2), g1 + dw * Fraction(5, 2)
            ends = cfg.get('padends', 'both')
            if ends in ('right', 'none'):
                e0 = g0
            if ends in ('left', 'none'):
                e1 = g1
            if e0 <= 0:
                return
            if op == 'pad-constant':
                pv = (W.real(f'pl{step}'), W.real(f'pr{step}'))
                s.pad((W.const(e0), W.const(e1)) if W.sym else (float(e0), float(e1)), mode='constant', values=W.array(list(pv)))
            else:
                pv = (pairs[0][1], pairs[-1][1])
                s.pad((W.const(e0), W.const(e1)) if W.sym else (float(e0), float(e1)), mode='edge')
            nl = -((e0 - g0) // dw) + 1          # ceil((g0-e0)/dw) + 1 points from e0 to g0, last dropped
            nr = -((g1 - e1) // dw) + 1
            nl, nr = int(nl), int(nr)
            left = [(e0 + (g0 - e0) * Fraction(k, max(nl - 1, 1)), pv[0]) for k in range(nl - 1)]
            right = [(g1 + (e1 - g1) * Fraction(k, max(nr - 1, 1)), pv[1]) for k in range(1, nr)]
            pairs = left + pairs + right
        elif op.startswith('append'):
            g1 = pairs[-1][0]
            other = R.Spectrum(W.array([W.const(g1 + 5), W.const(g1 + 9)]) if W.sym else [float(g1 + 5), float(g1 + 9)], W.array([W.real(f'ap{step}a'), W.real(f'ap{step}b')]))
            extra = [(g1 + 5, other.value[0]), (g1 + 9, other.value[1])]
            # a spectrum that starts on (or before) the last wavelength cannot be appended: the grid would not be strictly increasing
            for nm_, start in (('touching', g1), ('overlapping', g1 - 1)):
                bad = R.Spectrum(W.array([W.const(start), W.const(g1 + 4)]) if W.sym else [float(start), float(g1 + 4)], W.array([W.real(f'bd{step}a'), W.real(f'bd{step}b')]))
                n0 = len(s.wave)
                for cp in (False, True):
                    try:
                        r_ = s.append(bad, copy=cp)
                        tgt = r_ if cp else s
                        inc = all(W.is_true(tgt.wave[k] < tgt.wave[k + 1]) for k in range(len(tgt.wave) - 1)) if W.sym else all(tgt.wave[k] < tgt.wave[k + 1] for k in range(len(tgt.wave) - 1))
                        W.ob_true(f'{tag}: appending a {nm_} spectrum (copy={cp}) leaves a strictly increasing grid with one value per wavelength', inc and len(tgt.wave) == len(tgt.value))
                    except ValueError:
                        W.ob_true(f'{tag}: a refused append (copy={cp}, {nm_}) leaves the spectrum as it was', len(s.wave) == n0 and len(s.value) == n0)
            if op == 'append-copy':
                before = (list(s.wave), list(s.value))
                new = s.append(other, copy=True)
                W.ob_true(f'{tag}: copy leaves the original untouched', len(s.wave) == len(before[0]))
                s = new
            else:
                s.append(other)
            pairs = pairs + extra
        elif op == 'resample':
            if len(pairs) < 2:
                return
            g0, g1 = pairs[0][0], pairs[-1][0]
            newg = [g0, (g0 + g1) / 2, g1]
            s.resample(W.array([W.const(x) for x in newg]) if W.sym else [float(x) for x in newg])
            def interp(q):
                for (a, x), (b, y) in zip(pairs[:-1], pairs[1:]):
                    if a <= q <= b:
                        t = (q - a) / (b - a)
                        return x * (W.const(1 - t) if W.sym else float(1 - t)) + y * (W.const(t) if W.sym else float(t))
                return pairs[0][1] if len(pairs) == 1 and q == pairs[0][0] else 0
            if len(pairs) < 2:
                return
            pairs = [(q, interp(q)) for q in newg]
        _wellformed(W, s, tag)
        W.ob(f'{tag}: wavelengths', s.wave, W.array([W.const(g) if W.sym else float(g) for g, _ in pairs]))
        W.ob(f'{tag}: retained samples unaltered', s.value, W.array([x for _, x in pairs]))


# ------------------------------------------------------------------ the grid invariant, for every numeric dtype of the wavelengths
def cfg_inv(tier, seed):
    out = [{'dtype': d} for d in ('float64', 'float32', 'int64', 'int32', 'uint8', 'uint16', 'uint32', 'uint64')]
    return out, len(out), True


def run_inv(W, cfg):
    """numpy dtype semantics (unsigned wrap-around of differences) are not in the symbolic model: a concrete-only obligation"""
    R = W.lentil.radiometry

    def ok():
        import numpy as _np
        dt = _np.dtype(cfg['dtype'])
        for bad in ([5, 3, 9], [3, 5, 5], [9, 5, 3], [3, 9, 5], [7, 7, 7]):
            try:
                R.Spectrum(_np.array(bad, dtype=dt), [1.0, 2.0, 3.0])
                return False                     # a grid that is not strictly increasing was accepted
            except ValueError:
                pass
            s = R.Spectrum(_np.array([2, 4, 10], dtype=dt), [1.0, 2.0, 3.0])
            try:
                s.resample(_np.array(bad, dtype=dt))
                if not _np.all(_np.diff(_np.asarray(s.wave, dtype=float)) > 0):
                    return False
            except ValueError:
                pass
            if not _np.all(_np.diff(_np.asarray(s.wave, dtype=float)) > 0) or len(s.wave) != len(s.value):
                return False
        # appending fractional wavelengths / values to a spectrum held in this dtype keeps every sample as it is
        for cp in (False, True):
            head = R.Spectrum(_np.array([1, 2, 3], dtype=dt), _np.array([2, 3, 4], dtype=dt))
            tail = R.Spectrum(_np.array([4.5, 5.5]), _np.array([0.25, 1.5]))
            r_ = head.append(tail, copy=cp)
            tgt = r_ if cp else head
            if list(_np.asarray(tgt.wave, dtype=float)) != [1.0, 2.0, 3.0, 4.5, 5.5] or list(_np.asarray(tgt.value, dtype=float)) != [2.0, 3.0, 4.0, 0.25, 1.5]:
                return False
        good = R.Spectrum(_np.array([3, 5, 9], dtype=dt), [1.0, 2.0, 3.0])
        return list(_np.asarray(good.wave, dtype=float)) == [3.0, 5.0, 9.0]
    W.ob_concrete('a wavelength grid that is not strictly increasing is refused by the constructor and by resample, and append keeps every sample, whatever the dtype', ok)
    x = W.real('unused')
    W.ob('anchor', x * 1, x)


HARNESSES = {
    'grid_invariant': {'configs': cfg_inv, 'run': run_inv, 'validate_paths': 1},
    'integrate': {'configs': cfg_int, 'run': run_int, 'small': 600},
    'bin': {'configs': cfg_bin, 'run': run_bin, 'small': 8},
    'resize_programs': {'configs': cfg_prog, 'run': run_prog, 'small': 600, 'max_paths': 40000},
}

"""C18 - stochastic models are reproducible from their seed and physically bounded."""
import itertools
import numpy as rnp

EXPLANATION = ('C18: random draws are uninterpreted values indexed by (generator seed, call index, element index), constrained only by numpy\'s documented '
               'contract (Poisson draws are non-negative integers and lam < 0 raises; normal(loc, scale) = loc + scale * N0; lognormal > 0); the seed is a symbolic integer. '
               'Obligations: the result is the documented function of those draws (hence a deterministic function of arguments and seed, with the physical parameters as the '
               'distribution\'s parameters), no use of the global generator, supports and rejections, exact RMS scaling of power_spectrum on masks of any aspect ratio.')
BOUNDS = {'quick': 'frames 1x2, 2x2, 2x3 with symbolic signals, symbolic seed; power_spectrum masks 2x2, 2x3, 3x2 (FFT sizes with exact trigonometry) with symbolic normal draws',
          'thorough': 'adds 3x4, 4x3, 4x4 masks'}
ASSUMPTIONS = ['sample moments are not statistics the solver can decide: "mean = variance = signal" is discharged as "the Poisson parameter handed to the generator is the signal, element-wise", '
               '"zero mean and requested standard deviation" as "loc = 0, scale = electrons"',
               '"different seeds give different draws" is discharged as "the seed reaches default_rng unmodified"',
               'power_spectrum: no masked sample of the unscaled surface is exactly zero (probability-zero event)',
               'cosmic_rays: only the ray count (_nrays) and the output shape are checked; the ray tracer (float32, structured dtypes, np.choose) is not encoded',
               'Gaussian shot noise: non-negative counts (numpy NaN semantics of sqrt(<0) are not modelled)']
STUBS = ['numpy.random.default_rng(seed).poisson/normal/lognormal/uniform and module-level numpy.random.*: uninterpreted draws by contract; global use is logged']
SHAPES = [(1, 2), (2, 2), (2, 3)]


def cfg_seeded(tier, seed):
    out = [{'fn': f, 'shape': list(s)} for f in ('poisson', 'poisson-any-sign', 'gaussian', 'read_noise', 'read_noise-int', 'dark', 'dark-fpn', 'rule07', 'rule07-fpn', 'wide-seeds-large-rates') for s in SHAPES]
    return out, len(out), True


def run_seeded(W, cfg):
    lt = W.lentil
    D = lt.detector
    shp = tuple(cfg['shape'])
    seed = W.int('seed', 0, 1 << 30)
    fn = cfg['fn']
    n_ev0 = len(W.rng_events())
    if fn in ('poisson', 'poisson-any-sign'):
        img = W.reals('img', shp, nonneg=(fn == 'poisson'), hi=1000)
        anyneg = False
        for i in range(shp[0]):
            for j in range(shp[1]):
                anyneg = anyneg or W.is_true(img[i, j] < 0)
        try:
            out = D.shot_noise(img, method='poisson', seed=seed)
        except ValueError:
            W.ob_true('negative counts rejected, and only those', anyneg)
            return
        W.ob_true('accepted only non-negative counts', not anyneg)
        P = W.poisson_draw(seed, 0, img)
        W.ob('result = floor(Poisson draw with the signal as its parameter, seeded generator)', out, W.array([[W.floor(P[i, j]) if W.sym else rnp.floor(P[i, j]) for j in range(shp[1])] for i in range(shp[0])]))
        W.ob_true('non-negative integer counts', bool(((out >= 0) if not W.sym else W.array([[out[i, j] >= 0 for j in range(shp[1])] for i in range(shp[0])])).all()))
        out2 = D.shot_noise(img, method='poisson', seed=seed)
        W.ob('same seed, same arguments: same result', out2, out)

        def too_large_rejected():
            import numpy as _np
            for big in (1e19, 9.3e18, _np.array([[1.0, 1e20]])):
                try:
                    W.lentil.detector.shot_noise(big, method='poisson', seed=1)
                    return False
                except ValueError:
                    pass
            for neg in (-1.0, _np.array([[3.0, -0.5]])):
                try:
                    W.lentil.detector.shot_noise(neg, method='poisson', seed=1)
                    return False
                except ValueError:
                    pass
            ok = W.lentil.detector.shot_noise(_np.array([[0.0, 4.0e18]]), method='poisson', seed=1)
            return bool(_np.all(_np.isfinite(ok)) and _np.all(ok >= 0))
        W.ob_concrete('unrepresentably large and negative signals are rejected with ValueError; the largest representable ones are accepted (numpy generator limits)', too_large_rejected)
    elif fn == 'gaussian':
        img = W.reals('img', shp, pos=True, hi=1000)
        out = D.shot_noise(img, method='gaussian', seed=seed)
        N0 = W.std_normal(seed, 0, shp)
        W.ob('result = trunc(signal + sqrt(signal) * N0)', out, W.array([[W.fix(img[i, j] + W.sqrt(img[i, j]) * N0[i, j]) if W.sym else rnp.floor(rnp.trunc(img[i, j] + rnp.sqrt(img[i, j]) * N0[i, j])) for j in range(shp[1])] for i in range(shp[0])]))
    elif fn == 'read_noise-int':
        # an integer-typed frame (e.g. a digitised image): the noise must not be truncated to the frame's dtype
        img = rnp.arange(shp[0] * shp[1], dtype=rnp.int64).reshape(shp) * 3
        el = W.real('electrons', pos=True)
        out = D.read_noise(img, el, seed=seed)
        N0 = W.std_normal(seed, 0, shp)
        W.ob('integer frame: result = frame + electrons * N0', out, W.array([[int(img[i, j]) + el * N0[i, j] for j in range(shp[1])] for i in range(shp[0])]))
    elif fn == 'read_noise':
        img = W.reals('img', shp)
        el = W.real('electrons', pos=True)
        out = D.read_noise(img, el, seed=seed)
        N0 = W.std_normal(seed, 0, shp)
        W.ob('result = frame + electrons * N0 (zero mean, requested standard deviation)', out, W.array([[img[i, j] + el * N0[i, j] for j in range(shp[1])] for i in range(shp[0])]))
        W.ob('same seed: same result', D.read_noise(img, el, seed=seed), out)

        def seq_seeds_ok():
            # a seed given as a sequence (run number, frame number) is the generator's sequence seed: every element counts
            import numpy as real
            fr = real.zeros(shp)
            for fnc in (lambda sd: D.read_noise(fr, 2.0, seed=sd), lambda sd: D.shot_noise(fr + 50.0, method='poisson', seed=sd),
                        lambda sd: D.shot_noise(fr + 50.0, method='gaussian', seed=sd), lambda sd: D.dark_current(40.0, shape=shp, fpn_factor=0.5, seed=sd)):
                a, b, c = fnc([7, 1]), fnc([7, 2]), fnc([7, 1])
                if not real.array_equal(a, c) or (real.array_equal(a, b) and real.asarray(a).size > 1):
                    return False
            want = real.random.default_rng([7, 1]).normal(loc=0.0, scale=2.0, size=shp)
            return bool(real.allclose(D.read_noise(fr, 2.0, seed=[7, 1]), want, rtol=0, atol=1e-12))
        W.ob_concrete('sequence seeds: same sequence same draw, sequences differing in a later element differ, read noise = default_rng(sequence).normal', seq_seeds_ok)
    elif fn == 'dark':
        rate = W.real('rate', nonneg=True)
        out = D.dark_current(rate, shape=shp, fpn_factor=0, seed=seed)
        W.ob('dark frame without pattern noise = floor(rate)', out, W.array([[W.floor(rate) if W.sym else rnp.floor(rate)] * shp[1]] * shp[0]))
        r2 = W.reals('rates', shp, nonneg=True)
        out = D.dark_current(r2, shape=shp, fpn_factor=0)
        W.ob('per-pixel rates', out, W.array([[W.floor(r2[i, j]) if W.sym else rnp.floor(r2[i, j]) for j in range(shp[1])] for i in range(shp[0])]))
    elif fn == 'dark-fpn':
        rate = W.real('rate', nonneg=True)
        fpn = W.real('fpn', pos=True)
        out = D.dark_current(rate, shape=shp, fpn_factor=fpn, seed=seed)
        out2 = D.dark_current(rate, shape=shp, fpn_factor=fpn, seed=seed)
        W.ob('same seed: same fixed pattern', out2, out)
        # the caller scales the frame it was given in place (dark *= exposure time): a later call with the same arguments is unaffected
        keep = out.copy()
        out *= 2
        out3 = D.dark_current(rate, shape=shp, fpn_factor=fpn, seed=seed)
        W.ob('same seed after the caller edited the earlier frame in place: the same fixed pattern', out3, keep)
        W.ob_true('a fresh array every time', not W.same(out3, out) and not W.same(out3, out2))
        for i in range(shp[0]):
            for j in range(shp[1]):
                W.ob_true(f'non-negative [{i},{j}]', out[i, j] >= 0)
    elif fn == 'wide-seeds-large-rates':
        # seeds beyond 32 bits and rates beyond the float32 mantissa: numpy integer/float widths, a concrete-only obligation
        def wide():
            import numpy as _np
            frame = _np.full(shp, 50.0)
            for s0 in (0, 12345, 2 ** 31 + 7):
                for fnc in (lambda sd: D.shot_noise(frame, method='poisson', seed=sd), lambda sd: D.read_noise(frame, 3.0, seed=sd),
                            lambda sd: D.dark_current(100.0, shape=shp, fpn_factor=0.5, seed=sd)):
                    a, b = _np.asarray(fnc(s0), dtype=float), _np.asarray(fnc(s0 + 2 ** 32), dtype=float)
                    if a.shape != shp or _np.array_equal(a, b):
                        return False             # two different seeds gave the same draw
                    if not _np.array_equal(a, _np.asarray(fnc(s0), dtype=float)):
                        return False
            ref = _np.random.default_rng(2 ** 40 + 3).normal(loc=frame, scale=3.0) if False else None
            for rate in (2.0 ** 24 + 1, 3.0e9 + 0.75, 6.0e14 + 3):
                out = _np.asarray(D.dark_current(rate, shape=shp, fpn_factor=0), dtype=_np.float64)
                if not _np.all(out == _np.floor(_np.float64(rate))):
                    return False
            return True
        W.ob_concrete('seeds that differ above bit 31 give different draws; a dark frame without pattern noise is floor(rate) also beyond 2^24', wide)
        x = W.real('unused')
        W.ob('anchor', x * 1, x)
    elif fn == 'rule07-fpn':
        T = W.real('T', lo=100, hi=300)
        fpn = W.real('fpn', pos=True, hi=1)
        out = D.rule07_dark_current(T, 5e-6, 5e-6, shape=shp, fpn_factor=fpn, seed=seed)
        out2 = D.rule07_dark_current(T, 5e-6, 5e-6, shape=shp, fpn_factor=fpn, seed=seed)
        W.ob('same seed: same fixed pattern (Rule 07 route)', out2, out)
        W.ob_true('frame shape', tuple(out.shape) == shp)
    else:
        T = W.real('T', pos=True)
        out = D.rule07_dark_current(T, 5e-6, 5e-6, shape=shp, fpn_factor=0, seed=seed)
        out2 = D.rule07_dark_current(T, 5e-6, 5e-6, shape=shp, fpn_factor=0, seed=seed)
        W.ob('deterministic', out2, out)
        W.ob_true('frame shape', tuple(out.shape) == shp)
    W.ob_true('the global random generator is neither read nor advanced', len(W.rng_events()) == n_ev0)


def cfg_ps(tier, seed):
    shapes = [(2, 2), (2, 3), (3, 2)] + ([(3, 3), (3, 4), (4, 3), (4, 4)] if tier != 'quick' else [])
    out = []
    for s in shapes:
        n = s[0] * s[1]
        for bits in (2 ** n - 1, (2 ** n - 1) & ~1, 0b1011 if n >= 4 else 0b11):
            out.append({'shape': list(s), 'bits': bits})
        # a mask that is not strictly 0/1 (antialiased edge weights): the RMS is still taken over its support
        out.append({'shape': list(s), 'bits': 2 ** n - 1, 'weights': True})
    return out, len(out), True


def run_ps(W, cfg):
    lt = W.lentil
    shp = tuple(cfg['shape'])
    cells = [(r, c) for r in range(shp[0]) for c in range(shp[1])]
    mask = rnp.zeros(shp)
    for k, (r, c) in enumerate(cells):
        if cfg['bits'] >> k & 1:
            mask[r, c] = (0.5 + ((r + 2 * c) % 3) / 4.0) if cfg.get('weights') else 1
    def mask_dtypes_ok():
        import numpy as _np
        if cfg.get('weights'):
            return True
        ref = _np.asarray(W.lentil.power_spectrum(mask.astype(float), 1.0, 2.0, 4.0, 3, seed=5), dtype=float)
        oth = _np.asarray(W.lentil.power_spectrum(mask.astype(float), 1.0, 2.0, 4.0, 3, seed=6), dtype=float)
        if _np.array_equal(ref, oth):
            return False                      # different seeds, same draw
        for dt in ('int64', 'uint8', 'bool'):
            got_ = _np.asarray(W.lentil.power_spectrum(mask.astype(dt), 1.0, 2.0, 4.0, 3, seed=5), dtype=float)
            if got_.shape != ref.shape or not _np.allclose(got_, ref, rtol=1e-9, atol=1e-12):
                return False
        return True
    W.ob_concrete('a 0/1 mask held as integers or booleans gives the same surface as the same mask held as floats (and seeds still matter)', mask_dtypes_ok)
    rms = W.real('rms', pos=True)
    seed = W.int('seed', 0, 1 << 30)
    n_ev0 = len(W.rng_events())
    W.no_ite_pruning()
    W.float_constants()
    sup = [(r, c) for (r, c) in cells if mask[r, c]]
    try:
        W.generic_nonzero()
        opd = lt.power_spectrum(mask, 1.0, rms, 4.0, 3, seed=seed)
    except ZeroDivisionError:
        return              # every masked sample of the unscaled surface is exactly zero: excluded (probability-zero event)
    except ValueError as e:
        W.ob_fail(f'power_spectrum raised ValueError on a {shp[0]}x{shp[1]} mask (masks of any aspect ratio must be accepted)')
        return
    W.ob_true('shape', tuple(opd.shape) == shp)
    for (r, c) in cells:
        if not mask[r, c]:
            W.ob(f'zero outside the mask [{r},{c}]', opd[r, c], 0)
    W.ob('mean square over the mask = rms^2', W.sum(opd[r, c] * opd[r, c] for r, c in sup), rms * rms * len(sup))
    W.ob_true('the global random generator is not used', len(W.rng_events()) == n_ev0)
    # a deterministic function of its arguments and seed: asked again (same process, same mask shape) it gives the same surface
    again = lt.power_spectrum(mask, 1.0, rms, 4.0, 3, seed=seed)
    W.ob('same arguments and seed, second call', again, opd)
    third = lt.power_spectrum(mask.copy(), 1.0, rms, 4.0, 3, seed=seed)
    W.ob('same arguments and seed, third call', third, opd)


def cfg_cosmic(tier, seed):
    out = [{'case': c} for c in ('many', 'fraction', 'frame')]
    return out, len(out), True


def run_cosmic(W, cfg):
    D = W.mod('detector')
    if cfg['case'] == 'frame':
        # concrete-only: the ray tracer is not encoded; the returned frame must have the requested shape and be finite and non-negative
        # for every state of the global generator tried (including states that produce no ray at all)
        def frames_ok():
            import numpy as _np
            lt_ = W.lentil
            for sd in range(6):
                for shp, ts in (((6, 9), 1.0), ((6, 9), 1500.0), ((6, 9), 20000.0), ((9, 6), 60000.0), ((5, 16), 80000.0), ((16, 5), 80000.0), ((7, 7), 80000.0)):
                    _np.random.seed(sd)
                    fr = lt_.detector.cosmic_rays(shp, (5e-6, 5e-6, 3e-6), ts)        # pixel dimensions (y, x, z) as documented
                    if _np.shape(fr) != shp or not _np.all(_np.isfinite(fr)) or _np.any(_np.asarray(fr) < 0):
                        return False
                    nr = lt_.detector._nrays(shp, (5e-6, 5e-6, 3e-6), ts, 4e4)
                    if sd == 0 and shp == (7, 7):
                        many = lt_.detector.cosmic_rays(shp, (5e-6, 5e-6, 3e-6), 1.0, rate=1.1e12)       # about 1350 rays in one frame
                        if _np.shape(many) != shp or not _np.all(_np.isfinite(many)) or _np.any(_np.asarray(many) < 0) or float(_np.max(many)) > 1e9:
                            return False
                    if nr >= 2 and not _np.any(_np.asarray(fr) > 0):
                        return False          # rays strike the frame: some charge is deposited
            return True
        W.ob_concrete('cosmic_rays returns a finite, non-negative frame of the requested shape for every generator state tried', frames_ok)
        x = W.real('unused')
        W.ob('anchor', x, x)
        return
    if cfg['case'] == 'many':
        ts = W.real('ts', lo=1, hi=100)
        n = D._nrays((10, 20), (1e-3, 1e-3), ts, 4e4)
        W.ob('ray count = floor(area * rate * ts)', n, W.floor(10 * 1e-3 * 20 * 1e-3 * 4e4 * ts))
        W.ob_true('non-negative integer', n >= 0)
    else:
        ts = W.real('ts', pos=True, hi=0.1)
        n = D._nrays((10, 20), (1e-3, 1e-3), ts, 4e4)
        W.ob_true('0 or 1 rays when fewer than one is expected', (n == 0) | (n == 1) if W.sym and not isinstance(n, int) else n in (0, 1))


HARNESSES = {
    'seeded': {'configs': cfg_seeded, 'run': run_seeded, 'small': 64, 'validate_paths': 1},
    'power_spectrum': {'configs': cfg_ps, 'run': run_ps, 'small': 8, 'validate_paths': 1},
    'cosmic_count': {'configs': cfg_cosmic, 'run': run_cosmic, 'small': 8, 'validate_paths': 1},
}

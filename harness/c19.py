"""C19 - pixel, jitter and smear blurs are flux-preserving convolutions on any shape."""
import itertools, math
from fractions import Fraction
import numpy as rnp

EXPLANATION = ('C19: detector.pixel / convolvable.jitter / smear on symbolic non-negative images of every aspect ratio; numpy\'s fft2/ifft2 by their defining sums over Z_r x Z_c with exact '
               'trigonometry (sizes whose roots of unity lie in Q(sqrt2, sqrt3)); sinc and the real exponential of symbolic arguments are congruent atoms.')
BOUNDS = {'quick': 'image shapes (r, c) with r, c in {1,2,3,4} (every aspect ratio; pixel: r*c <= 12, jitter/smear: r*c <= 6), oversample 1..3, smear angles {0, 30, 45, 90, 135} degrees plus {180, 270, -90, 360, 450} on 2x3, 3x2, 1x3 frames, symbolic image / scale / distance / pixel scale',
          'thorough': 'adds sizes 6 (r, c in {1,2,3,4,6})'}
ASSUMPTIONS = ['image values in [0, 1] (scale of the 1e-9 tolerance of the float kernel weights)', 'pixel: "output = circular convolution" is asserted under the assumption that the convolution is non-negative (the property\'s wording)',
               'pixelate()\'s spline rescale is outside the claim', 'jitter/smear: images with a positive total; the all-zero image is the subject of its own obligation']
STUBS = ['numpy.sinc / numpy.exp of symbolic real arguments: atoms congruent on the canonical argument (sinc even, |sinc| <= 1; exp > 0, exp(0) = 1)']
SIZES_Q = [1, 2, 3, 4]


def _shapes(tier):
    S = SIZES_Q if tier == 'quick' else SIZES_Q + [6]
    return [(r, c) for r in S for c in S]


def cfg_pixel(tier, seed):
    out = [{'shape': list(s), 'os': os} for s in _shapes(tier) for os in (1, 2, 3) if s[0] * s[1] <= 12]
    # a side with a large prime factor (FFT libraries treat such lengths specially), both orientations
    # (13th roots of unity are outside the exact trigonometry: concrete-only configurations, 6 sampled images each)
    out += [{'shape': [1, 13], 'os': 2, '_concrete': 6}, {'shape': [13, 1], 'os': 3, '_concrete': 6}, {'shape': [2, 13], 'os': 2, '_concrete': 6}]
    return out, len(out), True


def _kernel_pixel(shp, os):
    fy = rnp.fft.fftfreq(shp[0])
    fx = rnp.fft.fftfreq(shp[1])
    return rnp.outer(rnp.sinc(fy * os), rnp.sinc(fx * os))          # rows <-> y, columns <-> x


def _circ_conv(W, img, K):
    """exact circular convolution of img with the real kernel whose transfer function is K (concrete weights)"""
    k = rnp.real(rnp.fft.ifft2(K))
    R, C = K.shape
    return [[W.sum(img[a, b] * float(k[(i - a) % R, (j - b) % C]) for a in range(R) for b in range(C)) for j in range(C)] for i in range(R)]


def run_pixel(W, cfg):
    lt = W.lentil
    W.float_constants()
    shp = tuple(cfg['shape'])
    img = W.reals('img', shp, nonneg=True, hi=1)
    def int_frames_ok():
        import numpy as _np
        fr = (_np.arange(shp[0] * shp[1]).reshape(shp) * 7) % 11 + 1
        ref = _np.asarray(W.lentil.detector.pixel(fr.astype(float), cfg['os']), dtype=float)
        for dt in ('int64', 'int32', 'uint16', 'float32'):
            got_ = _np.asarray(W.lentil.detector.pixel(fr.astype(dt), cfg['os']), dtype=float)
            if got_.shape != ref.shape or not _np.allclose(got_, ref, rtol=1e-5, atol=1e-5):
                return False
        got_ = _np.asarray(W.lentil.detector.pixel(fr.tolist(), cfg['os']), dtype=float)
        return got_.shape == ref.shape and bool(_np.allclose(got_, ref, rtol=1e-12, atol=1e-12))
    W.ob_concrete('frames of whole counts held as integers (or as nested lists) give the same blur as the same counts held as floats', int_frames_ok)
    try:
        out = lt.detector.pixel(img, cfg['os'])
    except ValueError:
        W.ob_fail(f'pixel raised ValueError on a {shp[0]}x{shp[1]} image (images of any shape must be accepted)')
        return
    W.ob_true('output shape = input shape', tuple(out.shape) == shp)
    K = _kernel_pixel(shp, cfg['os'])
    W.ob_true('unit gain at zero frequency', abs(K[0, 0] - 1.0) < 1e-15)
    conv = _circ_conv(W, img, K)
    for i in range(shp[0]):
        for j in range(shp[1]):
            W.ob_true(f'non-negative [{i},{j}]', out[i, j] >= 0)
    if W.sym:
        for i in range(shp[0]):
            for j in range(shp[1]):
                W.assume(conv[i][j] >= 0)
    elif any(conv[i][j] < 0 for i in range(shp[0]) for j in range(shp[1])):
        return
    for i in range(shp[0]):
        for j in range(shp[1]):
            W.ob_close(f'output = circular convolution with the separable pixel sinc [{i},{j}]', out[i, j], conv[i][j], 1e-9)
    # total kept: every output sample equals the convolution sample (above) and the convolution keeps the total (unit DC gain)
    W.ob_close('the convolution keeps the total signal', W.sum(conv[i][j] for i in range(shp[0]) for j in range(shp[1])), W.sum(img[i, j] for i in range(shp[0]) for j in range(shp[1])), 1e-9)
    # another oversampling factor on the same frame shape in the same process
    os2 = 3 if cfg['os'] != 3 else 2
    K2 = _kernel_pixel(shp, os2)
    conv2 = _circ_conv(W, img, K2)
    outb = lt.detector.pixel(img, os2)
    if W.sym:
        for i in range(shp[0]):
            for j in range(shp[1]):
                W.assume(conv2[i][j] >= 0)
    if W.sym or all(conv2[i][j] >= 0 for i in range(shp[0]) for j in range(shp[1])):
        for i in range(shp[0]):
            for j in range(shp[1]):
                W.ob_close(f'second call, oversample {os2}: output = convolution [{i},{j}]', outb[i, j], conv2[i][j], 1e-9)
    # commutes with circular translation
    rolled = W.np.roll(img, (1, 1), axis=(0, 1)) if shp != (1, 1) else img
    out2 = lt.detector.pixel(rolled, cfg['os'])
    W.ob('commutes with circular translation', out2, W.np.roll(out, (1, 1), axis=(0, 1)) if shp != (1, 1) else out)


def cfg_js(tier, seed):
    out = []
    for s in _shapes(tier):
        if s[0] * s[1] > (6 if tier == 'quick' else 9):
            continue
        out.append({'fn': 'jitter', 'shape': list(s), 'os': 1 + (s[0] + s[1]) % 3})
        for ang in (0, 30, 45, 90, 135):
            if (s[0] * s[1] > 6 and ang in (30, 135)) and tier == 'quick':
                continue
            out.append({'fn': 'smear', 'shape': list(s), 'os': 1 + (s[0] * s[1]) % 3, 'angle': ang})
    # axis-aligned directions beyond the first quadrant and beyond one turn (a quarter turn more or less is the other axis)
    for s in ((2, 3), (3, 2), (1, 3)):
        for ang in (180, 270, -90, 450, 360):
            out.append({'fn': 'smear', 'shape': list(s), 'os': 1 + (s[0] * s[1]) % 3, 'angle': ang})
    # faint and bright copies of a fixed sparse scene in the ringing regime of the kernel (negative lobes under the modulus): the
    # brightness is the symbolic input, so "every non-negative input" includes totals of 1e-12 as well as 1e+12
    for fn, shape, ext, ang in (('smear', [1, 4], '7/4', 0), ('smear', [4, 1], '3/2', 90), ('smear', [2, 4], '7/4', 0), ('smear', [1, 6], '4', 0), ('jitter', [1, 4], '2/5', 0), ('jitter', [4, 2], '1/2', 0)):
        out.append({'fn': fn, 'shape': shape, 'os': 1, 'angle': ang, 'faint': ext})
    return out, len(out), True


def run_js(W, cfg):
    lt = W.lentil
    W.float_constants()
    shp = tuple(cfg['shape'])
    cells = [(i, j) for i in range(shp[0]) for j in range(shp[1])]
    if cfg.get('faint'):
        c = W.real('brightness', pos=True)
        img = W.zeros(shp)
        img[0, 0] = c                     # a point source: the band-limited kernel rings around it (even axes: the Nyquist sample)
        ext = W.const(Fraction(cfg['faint']))
        p = W.const(Fraction(1)) if W.sym else 1.0
    else:
        img = W.reals('img', shp, nonneg=True, hi=1)
        ext = W.real('extent', nonneg=True)
        p = W.real('p', pos=True)
    os = cfg['os']
    tot_in = W.sum(img[i, j] for i, j in cells)
    W.assume(tot_in > 0)
    if cfg['fn'] == 'jitter':
        f = lambda im, e, ps: lt.jitter(im, e, pixelscale=ps, oversample=os)
    else:
        f = lambda im, e, ps: lt.smear(im, e, angle=cfg['angle'], pixelscale=ps, oversample=os)
    try:
        out = f(img, ext, p)
    except ZeroDivisionError:
        W.ob_fail('0/0 in the renormalisation: the all-zero image yields NaN instead of zeros')
        return
    W.ob_true('output shape = input shape', tuple(out.shape) == shp)
    for (i, j) in cells:
        W.ob_true(f'non-negative [{i},{j}]', out[i, j] >= 0)
    unit = c if cfg.get('faint') else 1           # faint scenes are compared after dividing by their brightness (relative, not absolute)
    W.ob('total signal kept', W.sum(out[i, j] for i, j in cells) / unit, tot_in / unit)
    # the transfer function is the analytic one on numpy's fftfreq grid (x <-> columns, y <-> rows), applied as a circular convolution
    fy, fx = rnp.fft.fftfreq(shp[0]), rnp.fft.fftfreq(shp[1])
    K = W.zeros(shp)
    for u in range(shp[0]):
        for v in range(shp[1]):
            if cfg['fn'] == 'jitter':
                rho = float(rnp.sqrt(fx[v] ** 2 + fy[u] ** 2))
                K[u, v] = W.exp(-2 * (W.pi() * (ext / p) * os * rho) ** 2) if W.sym else rnp.exp(-2 * (rnp.pi * (ext / p) * os * rho) ** 2)
            else:
                a = W.np.radians(cfg['angle'])
                t = W.np.sin(a) * fy[u] + W.np.cos(a) * fx[v]
                K[u, v] = W.np.sinc(t * (ext / p) * os)
    blurred = W.np.abs(W.np.fft.ifft2(W.np.fft.fft2(img) * K))
    tb = W.sum(blurred[i, j] for i, j in cells)
    if W.sym or tb != 0:
        W.ob('output = circular convolution with the analytic transfer function, renormalised', out / unit, blurred * tot_in / tb / unit)
    # extent in physical units with a pixel scale = the same extent in samples
    try:
        same = f(img, ext * 3, p * 3)
        W.ob('(extent*q, pixelscale q) = (extent, pixelscale)', same, out)
        ident = f(img, 0, p)
        W.ob('zero extent is the identity', ident, img)
        if shp != (1, 1):
            rolled = W.np.roll(img, (1, 1), axis=(0, 1))
            W.ob('commutes with circular translation', f(rolled, ext, p), W.np.roll(out, (1, 1), axis=(0, 1)))
    except ZeroDivisionError:
        W.ob_fail('0/0 in the renormalisation: the all-zero image yields NaN instead of zeros')


def cfg_zero(tier, seed):
    out = [{'fn': 'jitter', 'shape': [2, 2]}, {'fn': 'smear', 'shape': [2, 3]}]
    return out, len(out), True


def run_zero(W, cfg):
    """the all-zero image (a non-negative image) must come back as zeros, not NaN"""
    lt = W.lentil
    shp = tuple(cfg['shape'])
    img = rnp.zeros(shp)
    out = lt.jitter(img, 1.0) if cfg['fn'] == 'jitter' else lt.smear(img, 1.0, angle=30)
    out = W.concrete(out)
    W.ob_true('all-zero image gives zeros', bool((out == 0).all()))


HARNESSES = {
    'pixel': {'configs': cfg_pixel, 'run': run_pixel, 'small': 1, 'validate_paths': 1},
    'jitter_smear': {'configs': cfg_js, 'run': run_js, 'small': 1, 'validate_paths': 1, 'config_timeout_s': 600},
    'zero_image': {'configs': cfg_zero, 'run': run_zero, 'validate_paths': 0},
}

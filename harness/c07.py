"""C07 - wavefront views agree with each other; planes act as pointwise phasors."""
import itertools, random
import numpy as rnp
from specs import optics

EXPLANATION = ('C07: Wavefront.field / intensity / insert on wavefronts holding several symbolic fields (overlapping or not), and '
               'Plane/Pupil/Image.multiply on every amplitude/OPD/mask form with symbolic values.')
BOUNDS = {
    'quick': 'views: 1..3 fields of shapes <= 3x3 at offsets in -2..2 in an output <= 4x4 (sampled 320 geometries), symbolic complex content and weight; '
             'phasor: plane shapes <= 3x3, amplitude/OPD scalar|array, mask omitted|2-D|3-D, classes Plane/Pupil/Image, incoming default|after-plane|propagated',
    'thorough': 'views: 1..4 fields <= 4x4 (600 geometries); phasor: planes <= 4x4, all form combinations',
}
ASSUMPTIONS = ['wavelength > 0', 'mask-omitted configurations use amplitude elements that are either literal 0 or symbolic non-zero']
STUBS = []


# ------------------------------------------------------------------ views
def cfg_views(tier, seed):
    rng = random.Random(77 + seed)
    top, kmax, want = (3, 3, 320) if tier == 'quick' else (4, 4, 600)
    out = []
    for _ in range(want):
        k = rng.randint(1, kmax)
        S = [rng.randint(1, top + 1), rng.randint(1, top + 1)]
        fields = []
        for _ in range(k):
            fields.append({'shape': [rng.randint(1, top), rng.randint(1, top)], 'offset': [rng.randint(-2, 2), rng.randint(-2, 2)]})
        tgt = rng.choice(['same', 'same', 'other'])
        T = S if tgt == 'same' else [rng.randint(1, top + 1), rng.randint(1, top + 1)]
        out.append({'S': S, 'fields': fields, 'T': T})
    out.append({'S': [3, 3], 'fields': [{'shape': [2, 2], 'offset': [0, 0]}, {'shape': [2, 2], 'offset': [1, 1]}, {'shape': [1, 1], 'offset': [-1, -1]}], 'T': [3, 3]})
    out.append({'S': [2, 3], 'fields': [{'shape': [3, 3], 'offset': [0, 0]}, {'shape': [3, 3], 'offset': [0, 0]}], 'T': [2, 3]})
    # chains: A and B disjoint, C bridges them, in every order
    chain = [{'shape': [1, 2], 'offset': [0, -2]}, {'shape': [1, 2], 'offset': [0, 2]}, {'shape': [1, 5], 'offset': [0, 0]}]
    for perm in itertools.permutations(range(3)):
        out.append({'S': [3, 7], 'fields': [chain[i] for i in perm], 'T': [3, 7]})
    return out, len(out), False


def run_views(W, cfg):
    lt = W.lentil
    S = tuple(cfg['S'])
    w = lt.Wavefront.empty(wavelength=W.real('lam', pos=True), shape=S)
    datas = []
    for n, fd in enumerate(cfg['fields']):
        d = W.complexes(f'z{n}', tuple(fd['shape']))
        datas.append(d)
        w.data.append(lt.field.Field(data=d, offset=list(fd['offset'])))
    # reference: embedding sum
    def emb_sum(i, j, shape):
        r, c = i - shape[0] // 2, j - shape[1] // 2
        acc = 0
        for d, fd in zip(datas, cfg['fields']):
            rmin = -(fd['shape'][0] // 2) + fd['offset'][0]
            cmin = -(fd['shape'][1] // 2) + fd['offset'][1]
            if 0 <= r - rmin < fd['shape'][0] and 0 <= c - cmin < fd['shape'][1]:
                acc = acc + d[r - rmin, c - cmin]
        return acc
    field = w.field
    want = [[emb_sum(i, j, S) for j in range(S[1])] for i in range(S[0])]
    W.ob('field', field, W.array(want))
    inten = w.intensity
    W.ob('intensity=|field|^2', inten, W.array([[W.abs2(field[i, j]) for j in range(S[1])] for i in range(S[0])]))
    T = tuple(cfg['T'])
    wt = W.real('weight')
    prior = W.reals('prior', T)
    buf = prior.copy()
    ret = w.insert(buf, weight=wt)
    W.ob_true('insert-returns-out', W.same(ret, buf))
    wantT = [[prior[i, j] + wt * W.abs2(emb_sum(i, j, T)) for j in range(T[1])] for i in range(T[0])]
    W.ob('insert', buf, W.array(wantT))


# ------------------------------------------------------------------ phasor
def cfg_phasor(tier, seed):
    rng = random.Random(99 + seed)
    top = 3 if tier == 'quick' else 4
    shapes = [(1, 1), (2, 2), (2, 3), (3, 2), (3, 3)] + ([(4, 3), (4, 4)] if tier != 'quick' else [])
    out = []
    for shp in shapes:
        cells = [(r, c) for r in range(shp[0]) for c in range(shp[1])]
        for ampf, opdf, maskf, cls, inc in itertools.product(('scalar', 'array'), ('scalar', 'array'), ('none', '2d', '3d'),
                                                              ('Plane', 'Pupil', 'Image'), ('default', 'after-plane', 'propagated')):
            if inc == 'propagated' and cls == 'Plane':
                continue            # an image-plane wavefront may not meet a type-none plane (C08's table)
            if maskf == '3d' and len(cells) < 2:
                continue
            if tier == 'quick' and rng.random() > 0.6:
                continue
            if maskf == 'none':
                sup = [c for c in cells if rng.random() < 0.7] or cells[:1]
                segs = [sup]
            elif maskf == '2d':
                sup = [c for c in cells if rng.random() < 0.6] or cells[-1:]
                segs = [sup]
            else:
                a = [c for c in cells if rng.random() < 0.5]
                b = [c for c in cells if c not in a]
                if not a or not b:
                    a, b = cells[:1], cells[1:]
                segs = [a, b]
            out.append({'shape': list(shp), 'amp': ampf, 'opd': opdf, 'mask': maskf, 'segs': [[list(x) for x in s] for s in segs], 'cls': cls, 'inc': inc})
    # fixed: the documented default plane, and a scalar-amplitude plane with explicit off-centre mask
    out.append({'shape': [0, 0], 'amp': 'scalar', 'opd': 'scalar', 'mask': 'none', 'segs': [[]], 'cls': 'Plane', 'inc': 'after-plane', 'default': True})
    out.append({'shape': [0, 0], 'amp': 'scalar', 'opd': 'scalar', 'mask': 'none', 'segs': [[]], 'cls': 'Plane', 'inc': 'default', 'default': True})
    out.append({'shape': [0, 0], 'amp': 'scalar', 'opd': 'scalar', 'mask': 'none', 'segs': [[]], 'cls': 'Plane', 'inc': 'after-segments', 'default': True})
    for shp2 in ([2, 3], [3, 4]):
        cells2 = [[r, c] for r in range(shp2[0]) for c in range(shp2[1])]
        out.append({'shape': shp2, 'amp': 'scalar', 'opd': 'scalar', 'mask': 'none', 'segs': [[]], 'cls': 'Plane', 'inc': 'after-segments'})
        out.append({'shape': shp2, 'amp': 'array', 'opd': 'array', 'mask': '2d', 'segs': [cells2[1:-1]], 'cls': 'Plane', 'inc': 'after-segments'})
        out.append({'shape': shp2, 'amp': 'array', 'opd': 'scalar', 'mask': '3d', 'segs': [cells2[::2], cells2[1::2]], 'cls': 'Pupil', 'inc': 'after-segments'})
    for corner in ([[0, 3], [1, 3], [0, 2]], [[2, 0]], [[2, 3], [2, 2]]):
        out.append({'shape': [0, 0], 'amp': 'scalar', 'opd': 'scalar', 'mask': 'none', 'segs': [[]], 'cls': 'Plane', 'inc': 'after-offcentre', 'default': True, 'corner': corner})
        for cls in ('Plane', 'Pupil'):
            out.append({'shape': [3, 4], 'amp': 'scalar', 'opd': 'scalar', 'mask': 'none', 'segs': [[]], 'cls': cls, 'inc': 'after-offcentre', 'corner': corner})
    # planes produced by rescale() from an off-centre / segmented aperture: the phasor sits where the rescaled mask is
    for segs in ([[[0, 2], [0, 3], [1, 3]]], [[[0, 0], [1, 0]], [[1, 3], [2, 3]]]):
        for sc in (2, '3/2'):
            out.append({'shape': [3, 4], 'amp': 'array', 'opd': 'array', 'mask': '2d' if len(segs) == 1 else '3d', 'segs': segs, 'cls': 'Pupil', 'inc': 'default', 'rescaled': sc})
    out.append({'shape': [3, 3], 'amp': 'scalar', 'opd': 'array', 'mask': '2d', 'segs': [[[0, 0], [1, 1]]], 'cls': 'Pupil', 'inc': 'default'})
    out.append({'shape': [3, 3], 'amp': 'scalar', 'opd': 'scalar', 'mask': '2d', 'segs': [[[0, 1], [1, 1], [1, 2]]], 'cls': 'Pupil', 'inc': 'default'})
    out.append({'shape': [2, 3], 'amp': 'array', 'opd': 'scalar', 'mask': '3d', 'segs': [[[0, 0], [1, 2]], [[0, 1], [1, 1]]], 'cls': 'Plane', 'inc': 'after-plane'})
    # the incoming field and the plane's mask have bounding boxes of the same shape at different, overlapping places
    box = [[0, 2], [0, 3], [1, 2], [1, 3]]
    for cells_ in ([[1, 1], [1, 2], [2, 1], [2, 2]], [[0, 1], [0, 2], [1, 1], [1, 2]], [[1, 2], [1, 3], [2, 2], [2, 3]]):
        out.append({'shape': [3, 4], 'amp': 'array', 'opd': 'array', 'mask': '2d', 'segs': [cells_], 'cls': 'Plane', 'inc': 'after-offcentre', 'corner': box})
    out.append({'shape': [3, 4], 'amp': 'array', 'opd': 'scalar', 'mask': '3d', 'segs': [[[1, 0], [1, 1], [2, 0], [2, 1]], [[1, 2], [1, 3], [2, 2], [2, 3]]],
                'cls': 'Plane', 'inc': 'after-offcentre', 'corner': [[0, 1], [0, 2], [1, 1], [1, 2]]})
    return out, len(out), False


def run_phasor(W, cfg):
    lt = W.lentil
    shp = tuple(cfg['shape'])
    lam = W.real('lam', pos=True)
    default = cfg.get('default')
    # ---- incoming wavefront
    if cfg['inc'] == 'default':
        w = lt.Wavefront(lam)
    elif cfg['inc'] == 'after-plane':
        s0 = shp if not default else (2, 2)
        p0 = lt.Plane(amplitude=W.reals('a0', s0, nz=True), opd=W.reals('o0', s0))
        w = lt.Wavefront(lam) * p0
    elif cfg['inc'] == 'after-segments':
        # a wavefront that already carries several fields (a two-segment plane came first)
        s0 = shp if not default and shp != (0, 0) else (2, 3)
        m0 = rnp.zeros((2,) + s0, dtype=int)
        m0[0, :, : max(1, s0[1] // 2)] = 1
        m0[1, :, max(1, s0[1] // 2):] = 1
        p0 = lt.Plane(amplitude=W.reals('a0', s0, nz=True), opd=W.reals('o0', s0), mask=m0)
        w = lt.Wavefront(lam) * p0
        W.ob_true('the incoming wavefront carries two fields', len(w.data) == 2)
    elif cfg['inc'] == 'after-offcentre':
        # a field that sits off the plane centre (non-zero offset), non-square: what follows must act on it where it is
        s0 = (3, 4)
        m0 = rnp.zeros(s0, dtype=int)
        for r, c in cfg.get('corner', [[0, 3], [1, 3], [0, 2]]):
            m0[r, c] = 1
        p0 = lt.Plane(amplitude=W.reals('a0', s0, nz=True), opd=W.reals('o0', s0), mask=m0)
        w = lt.Wavefront(lam) * p0
    else:
        s0 = (2, 2)
        f0 = W.real('f0', pos=True)
        p0 = lt.Pupil(amplitude=W.reals('a0', s0, nz=True), opd=W.reals('o0', s0), pixelscale=W.real('dx0', pos=True), focal_length=f0)
        w = lt.Wavefront(lam) * p0
        w = lt.propagate_dft(w, pixelscale=W.real('du0', pos=True), shape=shp, oversample=1)
        if cfg['cls'] == 'Pupil':
            # image -> pupil: propagate once more so that a Pupil may follow
            w = lt.propagate_dft(w, pixelscale=W.real('du1', pos=True), shape=shp, oversample=1)
    in_field = w.field
    in_focal = w.focal_length
    in_shape, in_ps, in_ptype = w.shape, w.pixelscale, w.ptype
    # ---- the plane under test
    kw = {}
    cells = [(r, c) for r in range(shp[0]) for c in range(shp[1])]
    if default:
        plane = lt.Plane()
    else:
        if cfg['amp'] == 'scalar':
            A = W.real('A', nz=True)
            amp_at = lambda r, c: A
            kw['amplitude'] = A
        else:
            Aarr = W.reals('A', shp, nz=True) if cfg['mask'] != 'none' else None
            if Aarr is None:
                sup = [tuple(x) for x in cfg['segs'][0]]
                Aarr = W.zeros(shp)
                for (r, c) in sup:
                    Aarr[r, c] = W.real(f'A_{r}_{c}', nz=True)
            amp_at = lambda r, c: Aarr[r, c]
            kw['amplitude'] = Aarr
        if cfg['opd'] == 'scalar':
            O = W.real('O')
            opd_at = lambda r, c: O
            kw['opd'] = O
        else:
            Oarr = W.reals('O', shp)
            opd_at = lambda r, c: Oarr[r, c]
            kw['opd'] = Oarr
        if cfg['mask'] == '2d':
            m = rnp.zeros(shp, dtype=int)
            for r, c in cfg['segs'][0]:
                m[r, c] = 1
            kw['mask'] = m
        elif cfg['mask'] == '3d':
            m = rnp.zeros((len(cfg['segs']),) + shp, dtype=int)
            for k, s in enumerate(cfg['segs']):
                for r, c in s:
                    m[k, r, c] = 1
            kw['mask'] = m
        fl = W.real('fl', pos=True)
        if cfg['cls'] == 'Pupil':
            plane = lt.Pupil(focal_length=fl, **kw)
        elif cfg['cls'] == 'Image':
            plane = lt.Image(**kw)
        else:
            plane = lt.Plane(**kw)
    if cfg.get('rescaled') and not default:
        from fractions import Fraction as _Fr
        W.float_constants()
        sc = _Fr(str(cfg['rescaled']))
        plane._pixelscale = (1.0, 1.0)
        plane = plane.rescale(W.const(sc) if W.sym else float(sc))
        out = w * plane
        W.ob('wavelength', out.wavelength, lam)
        qa, qo, qm = plane.amplitude, plane.opd, W.concrete(plane.mask)
        gm = qm if qm.ndim == 2 else (qm.sum(axis=0) > 0).astype(int)
        R2, C2 = gm.shape
        want = [[optics.phasor(W, qa[r, c], qo[r, c], lam) if gm[r, c] else 0 for c in range(C2)] for r in range(R2)]
        got = out.field
        W.ob_true('rescaled plane: field has the rescaled shape', tuple(got.shape) == (R2, C2))
        W.ob('rescaled plane: field = its own amplitude * e(opd/lambda) on its own mask, where that mask is', got, W.array(want))
        return
    out = w * plane
    # ---- reference
    W.ob('wavelength', out.wavelength, lam)
    if default:
        W.ob('default-plane-field', out.field, in_field)
        W.ob_true('default-plane-shape', tuple(out.shape) == tuple(in_shape))
        W.ob_true('default-plane-ptype', out.ptype == in_ptype)
        W.ob_true('default-plane-pixelscale', (out.pixelscale is None) == (in_ps is None))
        return
    if cfg['cls'] == 'Pupil':
        W.ob('focal_length', out.focal_length, fl)
    else:
        W.ob('focal_length', out.focal_length, in_focal)
    if cfg['mask'] == 'none' and cfg['amp'] == 'scalar' and cfg['opd'] == 'scalar':
        # plane without shape: multiplies whatever shape the wavefront has
        ph = optics.phasor(W, A, O, lam)
        W.ob('field', out.field, in_field * ph)
        plane.amplitude = A * 2
        W.ob('field after the plane\'s amplitude was replaced (same wavelength)', (w * plane).field, in_field * ph * 2)
        return
    support = set()
    for s in cfg['segs']:
        support |= set(tuple(x) for x in s)
    if cfg['mask'] == 'none' and cfg['amp'] == 'scalar':
        support = set(cells)          # mask derived from a non-zero scalar amplitude: everything transmits
    inf = (lambda r, c: in_field) if getattr(in_field, 'shape', ()) == () else (lambda r, c: in_field[r, c])
    want = [[(inf(r, c) * optics.phasor(W, amp_at(r, c), opd_at(r, c), lam)) if (r, c) in support else 0 for c in range(shp[1])] for r in range(shp[0])]
    W.ob('field', out.field, W.array(want))
    # the plane's amplitude replaced between two products at the same wavelength: the second product uses the new one
    plane.amplitude = (Aarr if cfg['amp'] == 'array' else A) * 2
    W.ob('field after the plane\'s amplitude was replaced (same wavelength)', (w * plane).field, W.array(want) * 2)


# ------------------------------------------------------------------ pixelscale reconciliation
def cfg_ps(tier, seed):
    out = [{'plane': p, 'wave': w} for p in ('none', 'scalar', 'axis') for w in ('none', 'axis')]
    return out, len(out), True


def run_ps(W, cfg):
    lt = W.lentil
    lam = W.real('lam', pos=True)
    pp = {'none': None, 'scalar': W.real('p', pos=True), 'axis': (W.real('pr', pos=True), W.real('pc', pos=True))}[cfg['plane']]
    wp = {'none': None, 'axis': (W.real('wr', pos=True), W.real('wc', pos=True))}[cfg['wave']]
    w = lt.Wavefront(lam, pixelscale=wp)
    plane = lt.Plane(amplitude=W.reals('A', (2, 2), nz=True), pixelscale=pp)
    if pp is not None and wp is not None:
        p2 = (pp, pp) if cfg['plane'] == 'scalar' else pp
        differ = W.is_true((p2[0] != wp[0]) | (p2[1] != wp[1])) if W.sym else (p2[0] != wp[0] or p2[1] != wp[1])
    else:
        differ = False
    try:
        out = w * plane
    except ValueError:
        W.ob_true('refused-only-if-inconsistent', differ)
        return
    W.ob_true('accepted-only-if-consistent', not differ)
    if pp is not None or wp is not None:
        exp = ((pp, pp) if cfg['plane'] == 'scalar' else pp) if pp is not None else wp
        W.ob('pixelscale', [out.pixelscale[0], out.pixelscale[1]], [exp[0], exp[1]])
    else:
        W.ob_true('pixelscale-none', out.pixelscale is None)


HARNESSES = {
    'views': {'configs': cfg_views, 'run': run_views, 'small': 4},
    'phasor': {'configs': cfg_phasor, 'run': run_phasor, 'small': 4},
    'pixelscale': {'configs': cfg_ps, 'run': run_ps, 'small': 4},
}

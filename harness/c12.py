"""C12 - Zernike fit, compose and remove are mutually inverse for any mode set."""
import itertools, random
import numpy as rnp
from fractions import Fraction

EXPLANATION = ('C12: zernike_compose / zernike_fit / zernike_remove with symbolic coefficient vectors and symbolic OPD samples on concrete masks '
               '(the basis and its pseudo-inverse are the real numpy results, as at a C boundary); obligations are linear real arithmetic with a 1e-9 tolerance for the float weights.')
BOUNDS = {
    'quick': 'masks: circular, hexagon-like, two-island, off-centre on arrays 5x5..7x7 (even and odd); every ordered subset of <= 3 modes from Noll 1..6 with condition number < 1e8 (sampled 260); normalize T/F; default and caller-supplied (rho, theta); masks binary, weighted or with entries of either sign; mask array refilled in place in a quarter of the configurations; modes {1,4,11} in coordinates scaled by 1/8 (condition number ~5e4)',
    'thorough': 'arrays up to 9x9; ordered subsets of <= 4 modes from Noll 1..11 (sampled 600)',
}
ASSUMPTIONS = ['|coefficient| <= 1 and |opd sample| <= 1 (scale of the 1e-9 tolerance)', 'mode sets whose basis is ill-conditioned on the mask (cond >= 1e8) are skipped: the property presupposes linear independence']
STUBS = ['numpy.linalg.pinv on the concrete basis matrix: the real numpy function']


def _mask(kind, n):
    rr, cc = rnp.mgrid[0:n, 0:n]
    c = n // 2
    if kind == 'circle':
        m = ((rr - c) ** 2 + (cc - c) ** 2) <= (n // 2) ** 2
    elif kind == 'offcentre':
        m = ((rr - c + 1) ** 2 + (cc - c - 1) ** 2) <= (n // 2 - 1) ** 2
    elif kind == 'hex':
        m = (abs(rr - c) + abs(cc - c) <= n // 2) & (abs(rr - c) <= n // 2 - 1)
    else:  # two islands
        m = (((rr - 1) ** 2 + (cc - 1) ** 2) <= 1) | (((rr - n + 2) ** 2 + (cc - n + 2) ** 2) <= 2)
    return m.astype(int)


def configs(tier, seed):
    rng = random.Random(1212 + seed)
    sizes = [5, 6, 7] if tier == 'quick' else [5, 6, 7, 8, 9]
    top, kmax, want = (6, 3, 260) if tier == 'quick' else (11, 4, 600)
    subsets = [list(p) for k in range(1, kmax + 1) for p in itertools.permutations(range(1, top + 1), k)]
    out = []
    for _ in range(want):
        out.append({'mask': rng.choice(['circle', 'offcentre', 'hex', 'islands']), 'n': rng.choice(sizes), 'modes': rng.choice(subsets),
                    'normalize': rng.random() < 0.5, 'coords': rng.choice(['default', 'default', 'supplied']),
                    'weighted': rng.choice([False, False, False, False, True, True, 'signed']), 'forder': rng.random() < 0.3,
                    'refill': rng.random() < 0.25})
    out.append({'mask': 'circle', 'n': 7, 'modes': [4], 'normalize': True, 'coords': 'default'})
    out += [{'mask': mk, 'n': 6, 'modes': [mo], 'normalize': nz, 'coords': 'default'} for mk in ('circle', 'offcentre') for mo in (1, 2, 4, 6) for nz in (True, False)]
    out.append({'mask': 'circle', 'n': 6, 'modes': [2, 3], 'normalize': True, 'coords': 'default'})
    out.append({'mask': 'circle', 'n': 7, 'modes': [3, 1, 2], 'normalize': False, 'coords': 'supplied'})
    # independent but poorly conditioned mode sets (a small segment described in its parent aperture's coordinates: rho stays below 1/8,
    # condition number about 5e4): least squares itself loses ~1e-11 there, a solve through the normal equations ~1e-6
    out += [{'mask': mk, 'n': 7, 'modes': mo, 'normalize': nz, 'coords': 'scaled', 'scale': '1/8'} for mk in ('circle', 'hex')
            for mo in ([1, 4, 11], [11, 1, 4]) for nz in (True, False)]
    return out, len(out), False


def run(W, cfg):
    lt = W.lentil
    W.float_constants()
    Z = W.mod('zernike')
    mask = _mask(cfg['mask'], cfg['n'])
    if cfg.get('weighted'):
        # a mask whose non-zero entries are not all 1 (antialiased edge weights / integer labels): only its support may matter
        rr, cc = rnp.mgrid[0:mask.shape[0], 0:mask.shape[1]]
        mask = mask * (1 + ((rr + 2 * cc) % 3)) / 2.0
        if cfg['weighted'] == 'signed':
            mask = mask * (1 - 2 * ((rr + cc) % 2))          # non-zero entries of either sign: still only the support may matter
    modes = cfg['modes']
    kw = {}
    if cfg['coords'] == 'supplied':
        # a shifted and rotated grid supplied by the caller
        rho, theta = lt.zernike_coordinates(mask, shift=(0.5, -0.25), rotate=30)
        kw = {'rho': rnp.asarray(rho, dtype=float), 'theta': rnp.asarray(theta, dtype=float)}
    if cfg['coords'] == 'scaled':
        rho, theta = lt.zernike_coordinates(mask)
        kw = {'rho': rnp.asarray(rho, dtype=float) * float(Fraction(cfg['scale'])), 'theta': rnp.asarray(theta, dtype=float)}
    basis = W.concrete(loaderless_basis(W, mask, modes, cfg['normalize'], kw)).astype(float)
    B = basis.reshape(len(modes), -1)
    if rnp.linalg.matrix_rank(B) < len(modes) or rnp.linalg.cond(B) >= 1e8:
        return
    K = len(modes)
    c = W.reals('c', (K,), lo=-1, hi=1)
    # compose expects coefficients indexed by Noll index - 1
    full = W.zeros((max(modes),))
    for k, mo in enumerate(modes):
        full[mo - 1] = c[k]
    opd = Z.zernike_compose(mask, full, normalize=cfg['normalize'], **kw)
    fit = Z.zernike_fit(opd, mask, modes, normalize=cfg['normalize'], **kw)
    tol = 1e-9 * K
    for k in range(K):
        W.ob_close(f'fit(compose(c))[{k}] = c[{k}]', fit[k], c[k], tol)
    # the other normalisation setting on the same mask and modes, later in the same process (nothing may be remembered from the first)
    opd_o = Z.zernike_compose(mask, full, normalize=not cfg['normalize'], **kw)
    fit_o = Z.zernike_fit(opd_o, mask, modes, normalize=not cfg['normalize'], **kw)
    for k in range(K):
        W.ob_close(f'other normalisation afterwards: fit(compose(c))[{k}] = c[{k}]', fit_o[k], c[k], tol)
    fit_b = Z.zernike_fit(opd, mask, modes, normalize=cfg['normalize'], **kw)
    for k in range(K):
        W.ob_close(f'first setting once more: fit(compose(c))[{k}] = c[{k}]', fit_b[k], c[k], tol)
    if K == 1:
        # a single mode given as a bare integer means that mode, not "modes 1..k"
        fs = Z.zernike_fit(opd, mask, int(modes[0]), normalize=cfg['normalize'], **kw)
        W.ob_true('scalar mode index: one coefficient', len(rnp.atleast_1d(W.concrete(fs)) if not W.sym else fs) == 1)
        W.ob_close('scalar mode index: fit(compose(c)) = c', fs[0], c[0], tol)
    # remove: arbitrary OPD on the mask
    cells = [(r, cc) for r in range(mask.shape[0]) for cc in range(mask.shape[1]) if mask[r, cc]]
    O = W.zeros(mask.shape)
    for (r, cc) in cells:
        O[r, cc] = W.real(f'o_{r}_{cc}', lo=-1, hi=1)
    if cfg.get('forder'):
        O = W.np.asfortranarray(O)          # same values and shape, column-major memory layout (e.g. data loaded from a .mat file)
        fitF = Z.zernike_fit(W.np.asfortranarray(opd), mask, modes, normalize=cfg['normalize'], **kw)
        for k in range(K):
            W.ob_close(f'fit of a column-major OPD [{k}]', fitF[k], c[k], tol)
    if cfg['normalize']:
        # zernike_remove has no normalize argument: it works with normalised modes
        O_before = O.copy()
        res = Z.zernike_remove(O, mask, modes, **kw)
        W.ob('zernike_remove leaves the caller\'s OPD as it was', O, O_before)
        W.ob_true('zernike_remove returns a new array', not W.same(res, O))
        outside = [(r, cc) for r in range(mask.shape[0]) for cc in range(mask.shape[1]) if not mask[r, cc]][:6]
        for (r, cc) in outside:
            W.ob_close(f'outside the mask nothing is subtracted [{r},{cc}]', res[r, cc] * 1.0, 0.0, tol)
        refit = Z.zernike_fit(res, mask, modes, **kw)
        tol2 = 1e-9 * len(cells)
        # least squares, characterised independently of zernike_fit: the residual is orthogonal to every removed mode over the support
        nb = W.concrete(loaderless_basis(W, mask, modes, True, kw)).astype(float)
        for k in range(K):
            W.ob_close(f'residual orthogonal to removed mode {modes[k]} over the support', W.sum(res[r, cc] * float(nb[k, r, cc]) for (r, cc) in cells), 0, tol2 * 10)
        for k in range(K):
            W.ob_close(f'fit(remove(opd))[{k}] = 0', refit[k], 0, tol2)
        res2 = Z.zernike_remove(res, mask, modes, **kw)
        for (r, cc) in cells[:6]:
            W.ob_close(f'remove idempotent [{r},{cc}]', res2[r, cc], res[r, cc], tol2)
        if K == 1:
            rs = Z.zernike_remove(O, mask, int(modes[0]), **kw)
            for (r, cc) in cells[:6]:
                W.ob_close(f'scalar mode index: remove(opd, k) = remove(opd, [k]) [{r},{cc}]', rs[r, cc], res[r, cc], tol2)
        # an OPD held as integers (e.g. nanometre counts): the same residual as for the same values held as floats
        Oi = rnp.array([[((5 * r * r + 3 * cc2 + r * cc2) % 9 - 4) * int(bool(mask[r, cc2])) for cc2 in range(mask.shape[1])] for r in range(mask.shape[0])])
        ri = W.concrete(Z.zernike_remove(Oi, mask, modes, **kw)) if not W.sym else Z.zernike_remove(Oi, mask, modes, **kw)
        rf = Z.zernike_remove(Oi.astype(float), mask, modes, **kw)
        for (r, cc) in cells[:8]:
            W.ob_close(f'integer-typed OPD: same residual as the float OPD [{r},{cc}]', ri[r, cc] * 1.0, rf[r, cc] * 1.0, 1e-9)
        gone = Z.zernike_remove(opd, mask, modes, **kw)
        for (r, cc) in cells[:6]:
            W.ob_close(f'remove(compose(c)) = 0 [{r},{cc}]', gone[r, cc], 0, tol)
    if cfg.get('refill') and cfg['coords'] == 'default':
        # the same mask array refilled in place with another aperture (a different centroid and extent): nothing of the old one is remembered
        other = _mask({'circle': 'offcentre', 'offcentre': 'circle', 'hex': 'offcentre', 'islands': 'circle'}[cfg['mask']], cfg['n'])
        mask[...] = other.astype(mask.dtype)
        fresh = mask.copy()
        # (the refilled array is used first: a call on the fresh copy in between would itself displace anything remembered)
        opd2 = Z.zernike_compose(mask, full, normalize=cfg['normalize'])
        fit2 = Z.zernike_fit(opd2, mask, modes, normalize=cfg['normalize'])
        B2 = W.concrete(loaderless_basis(W, fresh, modes, cfg['normalize'], {})).astype(float).reshape(K, -1)
        if rnp.linalg.matrix_rank(B2) == K and rnp.linalg.cond(B2) < 1e8:
            W.ob('mask array refilled in place: compose = compose on a fresh copy', opd2, Z.zernike_compose(fresh, full, normalize=cfg['normalize']))
            for k in range(K):
                W.ob_close(f'mask array refilled in place: fit(compose(c))[{k}] = c[{k}]', fit2[k], c[k], tol)


def loaderless_basis(W, mask, modes, normalize, kw):
    return W.mod('zernike').zernike_basis(mask, modes, normalize=normalize, **kw)


HARNESSES = {'fit_compose_remove': {'configs': configs, 'run': run, 'small': 1}}

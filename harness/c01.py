"""C01 - dft2 is the defining Fourier sum; idft2 inverts it (lentil/fourier.py)."""
import itertools
from fractions import Fraction
from specs.fourier import dft2_spec

EXPLANATION = ('C01: dft2/idft2 run on symbolic complex data, symbolic per-axis alpha, real shift, integer offset; '
               'the reference is the defining double sum written from the statement.')
BOUNDS = {
    'quick': {'dft2_value': 'all (m,n,M,N) in 1..3 (81 shape tuples) x unitary in {T,F}; out in {None, dirty complex, real} on a subset; scalar alpha/shape/shift forms',
              'idft2_roundtrip': '(m,n) in 1..4 incl. non-square, both flags, alpha=(1/m,1/n)', 'history': 'two consecutive calls with equal shapes'},
    'thorough': {'dft2_value': 'all (m,n,M,N) in 1..4 (256 tuples) x unitary x out forms',
                 'idft2_roundtrip': '(m,n) in 1..6', 'history': 'two and three consecutive calls'},
}
ASSUMPTIONS = ['alpha, shift arbitrary reals (no sign or size restriction); offset arbitrary integers; data arbitrary complex']
STUBS = []


def cfg_value(tier, seed):
    top = 3 if tier == 'quick' else 4
    out = []
    for m, n, M, N in itertools.product(range(1, top + 1), repeat=4):
        for unitary in (True, False):
            out.append({'m': m, 'n': n, 'M': M, 'N': N, 'unitary': unitary, 'form': 'axis', 'out': None})
    # scalar forms and out= buffers on a shape subset (every parity/non-square combination up to 3)
    shapes = [(1, 1, 1, 1), (2, 3, 3, 2), (3, 2, 2, 3), (2, 2, 3, 3), (3, 3, 2, 2), (1, 3, 2, 1)]
    if tier != 'quick':
        shapes += [(4, 3, 3, 4), (3, 4, 4, 2), (4, 4, 1, 3)]
    for m, n, M, N in shapes:
        for unitary in (True, False):
            for outk in ('complex', 'real'):
                out.append({'m': m, 'n': n, 'M': M, 'N': N, 'unitary': unitary, 'form': 'axis', 'out': outk})
            if M == N:
                out.append({'m': m, 'n': n, 'M': M, 'N': N, 'unitary': unitary, 'form': 'scalar', 'out': None})
            out.append({'m': m, 'n': n, 'M': m, 'N': n, 'unitary': unitary, 'form': 'default-shape', 'out': None})
    return out, len(out), True


def run_value(W, cfg):
    m, n, M, N = cfg['m'], cfg['n'], cfg['M'], cfg['N']
    lt = W.lentil
    f = W.complexes('f', (m, n))
    if cfg['form'] == 'scalar':
        a = W.real('a')
        ar = ac = a
        s = W.real('s')
        sr = sc = s
        alpha, shape, shift = a, M, (s, s)
        o = W.int('o')
        orow = ocol = o
        offset = (o, o)
    else:
        ar, ac = W.real('ar'), W.real('ac')
        sr, sc = W.real('sr'), W.real('sc')
        orow, ocol = W.int('or'), W.int('oc')
        alpha, shape, shift, offset = (ar, ac), (M, N), (sr, sc), (orow, ocol)
    if cfg['form'] == 'default-shape':
        shape = None
    kw = {}
    outbuf = None
    if cfg['out'] == 'complex':
        outbuf = W.complexes('buf', (M, N))
        kw['out'] = outbuf
    elif cfg['out'] == 'real':
        outbuf = W.reals('buf', (M, N))
        kw['out'] = outbuf
    try:
        F = lt.fourier.dft2(f, alpha, shape=shape, shift=shift, offset=offset, unitary=cfg['unitary'], **kw)
    except TypeError:
        if cfg['out'] == 'real':
            W.ob_ok('real-out-refused')
            return
        raise
    if cfg['out'] == 'real':
        W.ob_fail('real-out-refused')
        return
    want = dft2_spec(W, f, m, n, M, N, ar, ac, sr, sc, orow, ocol, cfg['unitary'])
    W.ob('F', F, W.array(want))
    if outbuf is not None:
        W.ob_true('returns-out', W.same(F, outbuf))
        W.ob('out-holds-result', outbuf, W.array(want))


def cfg_roundtrip(tier, seed):
    top = 4 if tier == 'quick' else 6
    out = [{'m': m, 'n': n, 'unitary': u, 'out': o} for m in range(1, top + 1) for n in range(1, top + 1)
           for u in (True, False) for o in ((False, True) if (m, n) in ((2, 3), (3, 3), (1, 2)) else (False,))]
    # the flag given as something other than the literals: 0 / 1 and numpy booleans (the result of a comparison)
    out += [{'m': m, 'n': n, 'unitary': u, 'out': o, 'uform': uf} for (m, n) in ((1, 2), (2, 2), (2, 3)) for u in (True, False)
            for o in (False, True) for uf in ('int', 'npbool')]
    return out, len(out), True


def run_roundtrip(W, cfg):
    m, n = cfg['m'], cfg['n']
    lt = W.lentil
    if cfg.get('uform'):
        import numpy as _np
        cfg = dict(cfg, unitary=(int(cfg['unitary']) if cfg['uform'] == 'int' else _np.bool_(cfg['unitary'])))
    f = W.complexes('f', (m, n))
    alpha = (W.const(Fraction(1, m)), W.const(Fraction(1, n)))
    G = lt.fourier.dft2(f, alpha, unitary=cfg['unitary'])
    kw = {}
    if cfg['out']:
        kw['out'] = W.complexes('buf', (m, n))
    fin = f.copy()
    g = lt.fourier.idft2(G, alpha, unitary=cfg['unitary'], **kw)
    W.ob('idft2(dft2(f))', g, fin)
    if cfg['out']:
        W.ob_true('idft2 returns its out buffer', W.same(g, kw['out']))
        W.ob('the out buffer holds the inverse', kw['out'], fin)
    # transforming in place: the output buffer is the input array itself (forward and inverse)
    G2 = lt.fourier.dft2(fin.copy(), alpha, unitary=cfg['unitary'])
    gi = lt.fourier.idft2(G2, alpha, unitary=cfg['unitary'], out=G2)
    W.ob_true('idft2(F, out=F) returns that array', W.same(gi, G2))
    W.ob('idft2(F, out=F) holds the inverse', G2, fin)
    f2 = fin.copy()
    Gi = lt.fourier.dft2(f2, alpha, unitary=cfg['unitary'], out=f2)
    W.ob('dft2(f, out=f) holds the transform', f2, G)
    if cfg['unitary']:
        # energy: sum |idft2(H)|^2 == sum |H|^2 for arbitrary H
        H = W.complexes('h', (m, n))
        Hin = H.copy()
        h = lt.fourier.idft2(H, alpha, unitary=True)
        e_out = W.sum(W.abs2(h[i, j]) for i in range(m) for j in range(n))
        e_in = W.sum(W.abs2(Hin[i, j]) for i in range(m) for j in range(n))
        W.ob('energy', e_out, e_in)
        Fw = lt.fourier.dft2(Hin.copy(), alpha, unitary=True)
        e_f = W.sum(W.abs2(Fw[i, j]) for i in range(m) for j in range(n))
        W.ob('energy-forward', e_f, e_in)


def cfg_inverse(tier, seed):
    shapes = [(1, 2, 2, 1), (2, 2, 2, 2), (2, 3, 3, 2), (3, 2, 2, 2)] + ([(3, 3, 3, 3), (4, 3, 2, 4)] if tier != 'quick' else [])
    out = [{'m': m, 'n': n, 'M': M, 'N': N, 'unitary': u} for (m, n, M, N) in shapes for u in (True, False)]
    return out, len(out), True


def run_inverse(W, cfg):
    """idft2 for arbitrary sampling: conj(dft2(conj F)) with the forward transform's own normalisation (unitary: the same
    sqrt(|alpha_r alpha_c|), so it handles energy exactly as the forward transform does; otherwise 1/F.size)"""
    lt = W.lentil
    m, n, M, N = cfg['m'], cfg['n'], cfg['M'], cfg['N']
    G = W.complexes('g', (m, n))
    ar, ac = W.real('ar'), W.real('ac')
    sr, sc = W.real('sr'), W.real('sc')
    out = lt.fourier.idft2(G, (ar, ac), shape=(M, N), shift=(sr, sc), unitary=cfg['unitary'])
    kappa = W.sqrt(W.abs(ar * ac)) if cfg['unitary'] else W.const(Fraction(1, m * n))
    want = [[None] * N for _ in range(M)]
    for u in range(M):
        for v in range(N):
            acc = 0
            for x in range(m):
                for y in range(n):
                    acc = acc + G[x, y] * W.e((ar * (x - m // 2) * ((u - M // 2) - sr)) + (ac * (y - n // 2) * ((v - N // 2) - sc)))
            want[u][v] = acc * kappa
    W.ob('idft2 = conjugate-kernel sum with the forward normalisation', out, W.array(want))


def cfg_history(tier, seed):
    shapes = [(2, 2, 2, 2), (2, 3, 3, 2), (3, 3, 3, 3)]
    out = [{'m': m, 'n': n, 'M': M, 'N': N, 'calls': c} for (m, n, M, N) in shapes for c in ((2,) if tier == 'quick' else (2, 3))]
    return out, len(out), True


def run_history(W, cfg):
    m, n, M, N = cfg['m'], cfg['n'], cfg['M'], cfg['N']
    lt = W.lentil

    def layouts_ok():
        # an output buffer that is not C-contiguous (column-major, a window of a larger frame, a transposed view): either the result
        # is in the caller's buffer and that buffer is returned, or the buffer is refused loudly - never accepted and left unwritten
        import numpy as real
        rng = real.random.default_rng(5)
        f = rng.normal(size=(m, n)) + 1j * rng.normal(size=(m, n))
        kwargs = dict(shape=(M, N), shift=(0.25, -0.5))
        ref = lt.fourier.dft2(f, (0.2, 0.3), **kwargs)
        big = real.full((M + 2, N + 3), 7 + 7j)
        for name, buf in (('fortran', real.asfortranarray(real.full((M, N), 7 + 7j))), ('window', big[1:M + 1, 2:N + 2]),
                          ('transposed', real.full((N, M), 7 + 7j).T), ('strided', real.full((M, 2 * N), 7 + 7j)[:, ::2])):
            for fn, want in ((lt.fourier.dft2, ref), (lt.fourier.idft2, real.conj(lt.fourier.dft2(real.conj(f), (0.2, 0.3), **kwargs)))):
                buf[...] = 7 + 7j
                try:
                    got = fn(f, (0.2, 0.3), out=buf, **kwargs)
                except (ValueError, TypeError):
                    continue
                if got is not buf or not real.allclose(buf, want, rtol=1e-9, atol=1e-12):
                    return False
        return True
    W.ob_concrete('an output buffer that is not C-contiguous is either filled (and returned) or refused, never silently left unwritten', layouts_ok)
    for k in range(cfg['calls']):
        f = W.complexes(f'f{k}', (m, n))
        ar, ac = W.real(f'ar{k}'), W.real(f'ac{k}')
        sr, sc = W.real(f'sr{k}'), W.real(f'sc{k}')
        orow, ocol = W.int(f'or{k}'), W.int(f'oc{k}')
        F = lt.fourier.dft2(f, (ar, ac), shape=(M, N), shift=(sr, sc), offset=(orow, ocol))
        W.ob(f'call{k}', F, W.array(dft2_spec(W, f, m, n, M, N, ar, ac, sr, sc, orow, ocol, True)))
        # sampling, shift and offset handed over as arrays that the caller keeps: left as they were, and good for a second call
        al, sh, of = W.array([ar, ac]), W.array([sr, sc]), W.array([orow, ocol])
        f0 = f.copy()
        F2 = lt.fourier.dft2(f, al, shape=(M, N), shift=sh, offset=of)
        W.ob(f'call{k}: array-valued arguments, same transform', F2, F)
        W.ob(f'call{k}: caller\'s alpha array untouched', al, W.array([ar, ac]))
        W.ob(f'call{k}: caller\'s shift array untouched', sh, W.array([sr, sc]))
        W.ob(f'call{k}: caller\'s input untouched', f, f0)
        F3 = lt.fourier.dft2(f, al, shape=(M, N), shift=sh, offset=of)
        W.ob(f'call{k}: the same arrays used again', F3, F)
        # one sampling interval for both axes, written as a scalar, a one-element list and a one-element array: the same transform
        iso = lt.fourier.dft2(f, ar, shape=(M, N), shift=(sr, sc), unitary=True)
        W.ob(f'call{k}: alpha=[a] = alpha=a (unitary)', lt.fourier.dft2(f, [ar], shape=(M, N), shift=(sr, sc), unitary=True), iso)
        W.ob(f'call{k}: alpha=array([a]) = alpha=a (unitary)', lt.fourier.dft2(f, W.array([ar]), shape=(M, N), shift=(sr, sc), unitary=True), iso)
        # a real-typed spectrum handed to the inverse: the same result as the same numbers typed complex
        fr = W.reals(f'g{k}', (m, n))
        W.ob(f'call{k}: idft2 of real-typed input = idft2 of the same values typed complex',
             lt.fourier.idft2(fr, (ar, ac), shape=(M, N), shift=(sr, sc)), lt.fourier.idft2(fr + 0j * 1, (ar, ac), shape=(M, N), shift=(sr, sc)))


HARNESSES = {
    'dft2_value': {'configs': cfg_value, 'run': run_value, 'small': 4},
    'idft2_roundtrip': {'configs': cfg_roundtrip, 'run': run_roundtrip, 'small': 4},
    'history': {'configs': cfg_history, 'run': run_history, 'small': 4},
    'inverse_any_sampling': {'configs': cfg_inverse, 'run': run_inverse, 'small': 4},
}

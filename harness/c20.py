"""C20 - array geometry helpers share one centre convention (index floor(n/2))."""
import itertools, random
from fractions import Fraction
import numpy as rnp

EXPLANATION = ('C20: util.pad / subarray / window / boundary / rebin / centroid, helper.boundary_slice / slice_offset / mesh, shape.* and '
               'segmented.* on symbolic contents, symbolic integer shifts (split by the explorer), symbolic shape parameters; the hexagonal-segment '
               'geometry is checked on a symbolic real sample position through the real hexagon() and hex_to_rc() code.')
BOUNDS = {
    'quick': 'pad: every (input, target) shape pair in 1..4 per axis for 2-D arrays and 1..3 for cubes (depth 2), round trips, complex planes and cubes for shapes 1..2 (seven dtypes concretely); subarray: arrays <= 4x4, windows <= array, unbounded symbolic shift; '
             'boundary family: every support of arrays <= 3x3 (sampled 160) with symbolic positive values; rebin factors 2, 3; shapes on arrays 3x3, 2x3, 3x4 (value bounds at 4 probe samples, translation and symmetries at every sample) with symbolic radius/size/shift; hex segments rings 1..2 (all pairs for one ring, adjacent pairs for two), symbolic radius, gap, position',
    'thorough': 'pad shapes up to 5 (cubes 4); all supports of 3x3, sampled 4x4; rings up to 3',
}
ASSUMPTIONS = ['hex segments: gap > 0 strictly for the real-valued sample position (at gap = 0 adjacent closed hexagons share their edge; whether an integer pixel can lie on it in float arithmetic is not decided here)',
               'equal pixel area of segments "up to edge sampling" has no exact statement and is outside the claim; segments are shown to be translates of one prototype hexagon']
STUBS = []
BIG = 1 << 20


# ------------------------------------------------------------------ pad
def cfg_pad(tier, seed):
    t2, t3 = (4, 3) if tier == 'quick' else (5, 4)
    out = [{'in': [r, c], 'out': [R, C], 'cube': False} for r, c, R, C in itertools.product(range(1, t2 + 1), repeat=4)]
    out += [{'in': [r, c], 'out': [R, C], 'cube': True} for r, c, R, C in itertools.product(range(1, t3 + 1), repeat=4)]
    out += [{'in': [r, c], 'out': [R, C], 'cube': cube, 'kind': 'complex'} for r, c, R, C in itertools.product(range(1, 3), repeat=4) for cube in (True, False)]
    return out, len(out), True


def run_pad(W, cfg):
    lt = W.lentil
    (r, c), (R, C) = cfg['in'], cfg['out']
    if cfg.get('kind') == 'complex':
        # complex fields and stacks of them: both parts are carried over
        planes = [W.complexes(f'a{d}', (r, c)) for d in range(2)]
        a = W.array([[[planes[d][i, j] for j in range(c)] for i in range(r)] for d in range(2)]) if cfg['cube'] else planes[0]
    elif cfg['cube']:
        a = W.array([[[W.real(f'a_{d}_{i}_{j}') for j in range(c)] for i in range(r)] for d in range(2)])
    else:
        a = W.reals('a', (r, c))
    out = lt.pad(a, (R, C))
    if cfg.get('kind') == 'complex':
        def dtypes_ok():
            for dt in (rnp.int8, rnp.uint16, rnp.int64, rnp.float32, rnp.complex64, rnp.complex128, bool):
                base = (rnp.arange(2 * r * c).reshape(2, r, c) % 3 + 1)
                x = (base * (1 + 2j)).astype(dt) if rnp.issubdtype(dt, rnp.complexfloating) else base.astype(dt)
                x = x if cfg['cube'] else x[0]
                y = lt.pad(x, (R, C))
                per = rnp.array([lt.pad(x[d], (R, C)) for d in range(2)]) if cfg['cube'] else y
                if y.dtype != x.dtype or not rnp.array_equal(y, per):
                    return False
            return True
        W.ob_concrete('pad keeps the dtype (narrow integers, float32, complex) and pads a cube like its planes one by one', dtypes_ok)

    def ref(plane, i, j):
        x, y = i - R // 2 + r // 2, j - C // 2 + c // 2
        return plane[x, y] if 0 <= x < r and 0 <= y < c else 0

    if cfg['cube']:
        W.ob_true('cube depth kept', out.shape == (2, R, C))
        W.ob('pad cube', out, W.array([[[ref(a[d], i, j) for j in range(C)] for i in range(R)] for d in range(2)]))
    else:
        W.ob_true('shape', out.shape == (R, C))
        W.ob('pad', out, W.array([[ref(a, i, j) for j in range(C)] for i in range(R)]))
    if R >= r and C >= c:
        back = lt.pad(out, (r, c))
        W.ob('pad then crop back is the identity', back, a)


# ------------------------------------------------------------------ subarray / window
def cfg_sub(tier, seed):
    top = 4
    out = []
    for n, m in itertools.product(range(1, top + 1), repeat=2):
        for p, q in itertools.product(range(1, n + 1), range(1, m + 1)):
            out.append({'a': [n, m], 'win': [p, q]})
    return out, len(out), True


def run_sub(W, cfg):
    lt = W.lentil
    (n, m), (p, q) = cfg['a'], cfg['win']
    a = W.reals('a', (n, m))
    sr, sc = W.int('sr', -BIG, BIG), W.int('sc', -BIG, BIG)
    rmin, cmin = n // 2 - p // 2 + sr, m // 2 - q // 2 + sc
    fits = (rmin >= 0) & (cmin >= 0) & (rmin + p <= n) & (cmin + q <= m) if W.sym else (rmin >= 0 and cmin >= 0 and rmin + p <= n and cmin + q <= m)
    try:
        out = lt.subarray(a, (p, q), shift=(sr, sc))
    except ValueError:
        W.ob_true('ValueError only if the window leaves the array', ~fits if W.sym else not fits)
        return
    W.ob_true('accepted only if the window lies inside the array', fits)
    rm, cm = int(rmin), int(cmin)
    W.ob('subarray', out, W.array([[a[rm + i, cm + j] for j in range(q)] for i in range(p)]))
    # window(): shape form = centred pad/crop; slice form = plain slicing
    if (n, m) != (1, 1):
        W.ob('window(shape) = pad', lt.window(a, shape=(p, q)), lt.pad(a, (p, q)))
        W.ob('window(slice)', lt.window(a, slice=(0, p, 0, q)), W.array([[a[i, j] for j in range(q)] for i in range(p)]))
    W.ob_true('window() without arguments returns the array', W.same(lt.window(a), a) or bool((lt.window(a) == a).all()) if not W.sym else True)


# ------------------------------------------------------------------ boundary family, centroid
def cfg_bnd(tier, seed):
    rng = random.Random(2020 + seed)
    out = []
    shapes = [(1, 1), (1, 3), (2, 2), (2, 3), (3, 2), (3, 3)] + ([(4, 4), (3, 4)] if tier != 'quick' else [])
    for shp in shapes:
        n = shp[0] * shp[1]
        masks = list(range(1, 2 ** n))
        lim = 30 if tier == 'quick' else 511
        if len(masks) > lim:
            masks = rng.sample(masks, lim)
        for bits in masks:
            out.append({'shape': list(shp), 'bits': bits, 'pad': rng.choice([0, 0, 1, [1, 0]])})
    return out, len(out), False


def run_bnd(W, cfg):
    lt = W.lentil
    H = W.mod('helper')
    X = W.mod('extent')
    shp = tuple(cfg['shape'])
    cells = [(r, c) for r in range(shp[0]) for c in range(shp[1])]
    sup = [cells[k] for k in range(len(cells)) if cfg['bits'] >> k & 1]
    x = W.zeros(shp)
    for (r, c) in sup:
        x[r, c] = W.real(f'v_{r}_{c}', pos=True)
    rmin, rmax = min(r for r, c in sup), max(r for r, c in sup)
    cmin, cmax = min(c for r, c in sup), max(c for r, c in sup)
    W.ob('boundary = bounding box of the support', list(lt.boundary(x)), [rmin, rmax, cmin, cmax])
    pad = cfg['pad']
    pr, pc = (pad, pad) if isinstance(pad, int) else pad
    s = H.boundary_slice(x, pad=pad)
    want = (max(rmin - pr, 0), min(rmax + pr + 1, shp[0]), max(cmin - pc, 0), min(cmax + pc + 1, shp[1]))
    W.ob('boundary_slice = padded box clipped to the array', [s[0].start, s[0].stop, s[1].start, s[1].stop], list(want))
    off = H.slice_offset(s, shp)
    hh, ww = want[1] - want[0], want[3] - want[2]
    W.ob('slice_offset', list(off), [want[0] + hh // 2 - shp[0] // 2, want[2] + ww // 2 - shp[1] // 2])
    ext = X.array_extent((hh, ww), off, parent_shape=shp)
    W.ob('array_extent(slice shape, slice offset, parent) = the box', list(ext), [want[0], want[1] - 1, want[2], want[3] - 1])
    # a threshold: only samples strictly above it count, on both axes alike; values below it (weak, zero or negative) do not
    if len(sup) >= 2:
        t = W.real('thr', pos=True)
        y = W.zeros(shp)
        strong = [p_ for k, p_ in enumerate(sup) if k % 2 == 0]
        for k, (r, c) in enumerate(sup):
            y[r, c] = (t + W.real(f's_{r}_{c}', pos=True)) if k % 2 == 0 else t * W.real(f'u_{r}_{c}', pos=True, hi=1)
        for (r, c) in cells:
            if (r, c) not in sup and (r + c) % 2:
                y[r, c] = -W.real(f'n_{r}_{c}', pos=True)
        sb = [min(r for r, c in strong), max(r for r, c in strong), min(c for r, c in strong), max(c for r, c in strong)]
        W.ob('boundary(x, threshold) = bounding box of the samples above the threshold', list(lt.boundary(y, threshold=t)), sb)
        z = W.zeros(shp)
        for (r, c) in cells:
            z[r, c] = y[r, c] if (r, c) in strong else (-W.real(f'm_{r}_{c}', pos=True) if (r + c) % 2 else 0)
        W.ob('boundary of data with negative samples (default threshold 0) = bounding box of the positive ones', list(lt.boundary(z)), sb)
        st = H.boundary_slice(y, threshold=t)
        W.ob('boundary_slice with a threshold', [st[0].start, st[0].stop, st[1].start, st[1].stop], [sb[0], sb[1] + 1, sb[2], sb[3] + 1])
    # centroid = sum(i w)/sum(w)
    x_before = x.copy()
    cr, cc = lt.centroid(x)
    W.ob('centroid leaves the caller\'s image as it was', x, x_before)
    tot = W.sum(x[r, c] for r, c in sup)
    W.ob('centroid row', cr * tot, W.sum(r * x[r, c] for r, c in sup))
    W.ob('centroid col', cc * tot, W.sum(c * x[r, c] for r, c in sup))


# ------------------------------------------------------------------ rebin, mesh
def cfg_rebin(tier, seed):
    out = [{'shape': [f * a, f * b], 'factor': f, 'cube': cube} for f in (2, 3) for a in (1, 2) for b in (1, 2) for cube in (False, True)]
    out.append({'shape': [2, 2], 'factor': 2, 'cube': False, 'complex': True})
    return out, len(out), True


def run_rebin(W, cfg):
    lt = W.lentil
    f = cfg['factor']
    R, C = cfg['shape']
    if cfg.get('complex'):
        try:
            lt.rebin(W.complexes('z', (R, C)), f)
            W.ob_fail('complex data refused')
        except ValueError:
            W.ob_ok('complex data refused')
        return
    def narrow_ok():
        # frames and cubes held in narrow integer / boolean / single-precision types: the block sums are the true sums (no wrap-around)
        import numpy as _np
        base = (_np.arange(R * C).reshape(R, C) * 37) % 200 + 50
        for dt in ('bool', 'uint8', 'int8', 'uint16', 'int32', 'float32'):
            x = base.astype(dt)
            arr = _np.stack([x, x[::-1]]) if cfg['cube'] else x
            got = _np.asarray(W.lentil.rebin(arr, f), dtype=float)
            ref = arr.astype(float)
            ref = ref.reshape(ref.shape[:-2] + (R // f, f, C // f, f)).sum(-1).sum(-2)
            if got.shape != ref.shape or not _np.array_equal(got, ref):
                return False
        return True
    W.ob_concrete('narrow dtypes: every block sum is the true sum', narrow_ok)
    if cfg['cube']:
        a = W.array([[[W.real(f'a_{d}_{i}_{j}') for j in range(C)] for i in range(R)] for d in range(2)])
        out = lt.rebin(a, f)
        want = [[[W.sum(a[d][i * f + u, j * f + v] for u in range(f) for v in range(f)) for j in range(C // f)] for i in range(R // f)] for d in range(2)]
    else:
        a = W.reals('a', (R, C))
        out = lt.rebin(a, f)
        want = [[W.sum(a[i * f + u, j * f + v] for u in range(f) for v in range(f)) for j in range(C // f)] for i in range(R // f)]
        W.ob('sum preserved', W.sum(out[i, j] for i in range(R // f) for j in range(C // f)), W.sum(a[i, j] for i in range(R) for j in range(C)))
    W.ob('block sums', out, W.array(want))


# ------------------------------------------------------------------ drawn shapes
def cfg_shapes(tier, seed):
    out = []
    for kind in ('circle', 'hexagon', 'hexagon-rot', 'rectangle', 'rectangle-90', 'rectangle-30'):
        for shp in ((3, 3), (2, 3), (3, 4)):
            for aa in (True, False):
                out.append({'kind': kind, 'shape': list(shp), 'antialias': aa})
    return out, len(out), True


def _draw(lt, kind, shp, size, shift, aa):
    if kind == 'circle':
        return lt.circle(shp, size[0], shift=shift, antialias=aa)
    if kind == 'hexagon':
        return lt.hexagon(shp, size[0], shift=shift, antialias=aa)
    if kind == 'hexagon-rot':
        return lt.hexagon(shp, size[0], shift=shift, rotate=True, antialias=aa)
    if kind.startswith('rectangle-'):
        return lt.rectangle(shp, size[0], size[1], shift=shift, angle=int(kind.split('-')[1]), antialias=aa)
    return lt.rectangle(shp, size[0], size[1], shift=shift, antialias=aa)


def run_shapes(W, cfg):
    lt = W.lentil
    W.no_ite_pruning()
    shp = tuple(cfg['shape'])
    kind, aa = cfg['kind'], cfg['antialias']
    size = (W.real('size0', pos=True), W.real('size1', pos=True))
    s = (W.real('s0'), W.real('s1'))
    m = _draw(lt, kind, shp, size, s, aa)
    probe = [(0, 0), (shp[0] // 2, shp[1] // 2), (shp[0] - 1, shp[1] - 1), (0, shp[1] - 1)]
    for i in range(shp[0]):
        for j in range(shp[1]):
            if (i, j) not in probe:
                continue
            v = m[i, j]
            W.ob_true(f'0 <= value [{i},{j}]', v >= 0)
            W.ob_true(f'value <= 1 [{i},{j}]', v <= 1)
            if not aa:
                W.ob_true(f'binary without antialiasing [{i},{j}]', (v == 0) | (v == 1) if W.sym else (v == 0 or v == 1))
    # integer translation: drawing at shift + (1, -1) moves every sample by (1, -1)
    m2 = _draw(lt, kind, shp, size, (s[0] + 1, s[1] - 1), aa)
    for i in range(shp[0] - 1):
        for j in range(1, shp[1]):
            W.ob(f'translates exactly [{i},{j}]', m2[i + 1, j - 1], m[i, j])
    # half-turn about the origin sample (index floor(n/2)) at zero shift, and mirror symmetry
    z = _draw(lt, kind, shp, size, (0, 0), aa)
    o = (shp[0] // 2, shp[1] // 2)
    for i in range(shp[0]):
        for j in range(shp[1]):
            i2, j2 = 2 * o[0] - i, 2 * o[1] - j
            if 0 <= i2 < shp[0] and 0 <= j2 < shp[1]:
                W.ob(f'half-turn symmetric [{i},{j}]', z[i2, j2], z[i, j])
            if kind.startswith('rectangle-'):
                continue            # mirror symmetry is stated for unrotated shapes
            if 0 <= j2 < shp[1]:
                W.ob(f'mirror (columns) [{i},{j}]', z[i, j2], z[i, j])
            if 0 <= i2 < shp[0]:
                W.ob(f'mirror (rows) [{i},{j}]', z[i2, j], z[i, j])
    def spider_ok():
        import numpy as _np
        sh = _np.array([1.0, -2.0])
        keep_sh = sh.copy()
        for aa_ in (True, False):
            a1 = _np.asarray(W.lentil.spider((9, 11), 2, angle=30, shift=sh, antialias=aa_), dtype=float)
            a2 = _np.asarray(W.lentil.spider((9, 11), 2, angle=30, shift=sh, antialias=aa_), dtype=float)
            a3 = _np.asarray(W.lentil.spider((9, 11), 2, angle=30, shift=(1.0, -2.0), antialias=aa_), dtype=float)
            if not (_np.array_equal(a1, a2) and _np.array_equal(a1, a3) and _np.array_equal(sh, keep_sh)):
                return False
            if a1.min() < 0 or a1.max() > 1:
                return False
        return True
    if kind == 'circle' and shp == (3, 3) and aa:
        W.ob_concrete('spider: a shift array kept by the caller is left alone and gives the same drawing every time, values in [0, 1]', spider_ok)
    # drawn once more with the first arguments, after the other drawings of this configuration: the same samples
    m3 = _draw(lt, kind, shp, size, s, aa)
    for (i, j) in probe:
        W.ob(f'drawn again [{i},{j}]', m3[i, j], m[i, j])


# ------------------------------------------------------------------ hex segments
def cfg_hex(tier, seed):
    out = []
    for rings in ((1, 2) if tier == 'quick' else (1, 2, 3)):
        for rot in (False, True):
            if rings == 1:
                out.append({'what': 'geometry', 'rings': rings, 'rotate': rot})
            else:
                # the pair obligations of the larger apertures are spread over several processes
                out += [{'what': 'geometry', 'rings': rings, 'rotate': rot, 'chunk': [k, 8]} for k in range(8)]
    for rings, drop in ((1, [0]), (2, [0, 3]), (1, []), (2, [1, 2, 18])):
        for rot in (False, True):
            out.append({'what': 'count', 'rings': rings, 'rotate': rot, 'drop': drop})
    out.append({'what': 'count', 'rings': 1, 'rotate': False, 'drop': [], 'R': 6})
    # butted segments (gap 0, the non-negative corner of the quantifier): samples on a shared edge belong to one segment only
    for R, rot, rings in ((4, False, 1), (4, True, 1), (3, False, 2), (5, True, 1), (4.5, False, 1), (2.5, True, 2)):
        out.append({'what': 'count', 'rings': rings, 'rotate': rot, 'drop': [], 'R': R, 'g': 0})
    out.append({'what': 'count', 'rings': 2, 'rotate': True, 'drop': [5], 'R': 4})
    out.append({'what': 'count', 'rings': 2, 'rotate': False, 'drop': [0, 3, 3]})
    out.append({'what': 'count', 'rings': 1, 'rotate': True, 'drop': [5, 99]})
    out.append({'what': 'count', 'rings': 1, 'rotate': False, 'drop': [0, 0]})
    for rf in ('int', 'npbool'):
        for rot in (True, False):
            out.append({'what': 'count', 'rings': 1, 'rotate': rot, 'drop': [], 'rotform': rf, '_concrete': 1})
            out.append({'what': 'count', 'rings': 2, 'rotate': rot, 'drop': [], 'R': 4, 'g': 0, 'rotform': rf, '_concrete': 1})
    for c in out:
        if c['what'] == 'count':
            c['_concrete'] = 1          # no symbolic input: counted as concrete-only obligations on the real code
    return out, len(out), True


def run_hex(W, cfg):
    lt = W.lentil
    S = W.mod('segmented')
    rings, rot = cfg['rings'], cfg['rotate']
    if cfg.get('rotform'):
        # the flag as 0 / 1 or as a numpy boolean (the result of a comparison) means what the literal means
        rot = int(rot) if cfg['rotform'] == 'int' else rnp.bool_(rot)
    if cfg['what'] == 'count':
        R, g = cfg.get('R', 2.5), cfg.get('g', 0.5)
        m = lt.hex_segments(rings, R, g, rotate=rot, antialias=False, drop=tuple(cfg['drop']), pad=2)
        m = W.concrete(m)
        total_ = 1 + 3 * rings * (rings + 1)
        nseg = total_ - len({d for d in cfg['drop'] if 0 <= d < total_})          # a segment named twice, or one that does not exist, is dropped once / not at all
        full_ = W.concrete(lt.hex_segments(rings, R, g, rotate=rot, antialias=False, drop=(), pad=2))
        keep_ = [k for k in range(total_) if k not in cfg['drop']]
        W.ob_true('the kept segments are the full aperture\'s segments minus the dropped ones, in order', m.shape[0] == len(keep_) and all((m[i] == full_[k]).all() for i, k in enumerate(keep_)))
        W.ob_true('1 + 3k(k+1) - dropped segments', m.shape[0] == nseg)
        W.ob_true('square array', m.shape[1] == m.shape[2])
        flat = m.sum(axis=0)
        W.ob_true('binary without antialiasing (every segment, the centre one included)', bool(rnp.isin(m, (0, 1)).all()))
        area = m.reshape(m.shape[0], -1).sum(axis=1)
        W.ob_true('every segment is non-empty', bool((area > 0).all()))
        W.ob_true('equal area up to edge sampling (spread below half the perimeter in samples)', float(area.max() - area.min()) <= 3 * R)
        W.ob_true('segments do not overlap (non-antialiased, this geometry)', bool((flat <= 1).all()))
        W.ob_true('clear of the array border', bool(flat[0].sum() == 0 and flat[-1].sum() == 0 and flat[:, 0].sum() == 0 and flat[:, -1].sum() == 0))
        # the zero border of `pad` samples on every side, also for antialiased (soft-edged) segments and other pad values
        for pad_, aa_ in ((2, True), (3, True), (3, False), (5, True)):
            mp = W.concrete(lt.hex_segments(rings, R, g, rotate=rot, antialias=aa_, drop=tuple(cfg['drop']), pad=pad_))
            fl_ = mp.sum(axis=0)
            k_ = pad_ - 1
            W.ob_true(f'pad={pad_}, antialias={aa_}: the outermost {k_} rows and columns of the aperture are exactly zero',
                      bool(fl_[:k_].sum() == 0 and fl_[-k_:].sum() == 0 and fl_[:, :k_].sum() == 0 and fl_[:, -k_:].sum() == 0))
        f2 = lt.hex_segments(rings, R, g, rotate=rot, antialias=False, drop=tuple(cfg['drop']), pad=2, flatten=True)
        W.ob_true('flatten = sum of the segments', bool((W.concrete(f2) == flat).all()))
        if cfg.get('rotform'):
            lit = bool(cfg['rotate'])
            for aa_ in (False, True):
                a_ = W.concrete(lt.hex_segments(rings, R, g, rotate=rot, antialias=aa_, pad=2))
                b_ = W.concrete(lt.hex_segments(rings, R, g, rotate=lit, antialias=aa_, pad=2))
                W.ob_true(f'rotate={rot!r} draws the aperture of rotate={lit} (antialias={aa_})', a_.shape == b_.shape and bool((a_ == b_).all()))
                h1 = W.concrete(lt.hexagon((9, 11), 3.5, shift=(0.25, -0.5), rotate=rot, antialias=aa_))
                h2 = W.concrete(lt.hexagon((9, 11), 3.5, shift=(0.25, -0.5), rotate=lit, antialias=aa_))
                W.ob_true(f'rotate={rot!r} draws the hexagon of rotate={lit} (antialias={aa_})', bool((h1 == h2).all()))
        return
    W.no_ite_pruning()
    # geometry on a symbolic real sample position: every segment is hexagon() translated to hex_to_rc(); no position belongs to two
    R = W.real('R', pos=True)
    g = W.real('g', pos=True)
    P = (W.real('Pr'), W.real('Pc'))
    hexes = [S.Hex(0, 0, 0)] + [h for ring in range(1, rings + 1) for h in S.hex_ring(ring)]
    W.ob_true('ring sizes: 1 + 3k(k+1) cells', len(hexes) == 1 + 3 * rings * (rings + 1))
    centres = [S.hex_to_rc(h, R + g / 2, rot) for h in hexes]
    # axial-grid centres, independently: rotate=False: x = 3/2 q r, y = sqrt3 (q/2 + r) r ; rotate=True: x = sqrt3 (q + r/2) r, y = 3/2 r r ; (row, col) = (-y, x)
    rr = R + g / 2
    s3 = W.sqrt(3)
    for h, (cr, cc) in zip(hexes, centres):
        if rot:
            x, y = rr * s3 * (h.q + Fraction(h.r, 2)), rr * Fraction(3, 2) * h.r
        else:
            x, y = rr * Fraction(3, 2) * h.q, rr * s3 * (Fraction(h.q, 2) + h.r)
        W.ob(f'centre of segment {tuple(h)}', [cr, cc], [-y, x])
    member = []
    for (cr, cc) in centres:
        m = lt.hexagon((1, 1), R, shift=(cr - P[0], cc - P[1]), rotate=rot, antialias=False)
        member.append(m[0, 0])
    # all pairs for one ring; adjacent cells (hex distance 1) beyond that
    def dist(a, b):
        return max(abs(a.q - b.q), abs(a.r - b.r), abs(a.s - b.s))
    npair = 0
    for i in range(len(member)):
        for j in range(i + 1, len(member)):
            if rings > 1 and dist(hexes[i], hexes[j]) > 1:
                continue
            npair += 1
            if cfg.get('chunk') and npair % cfg['chunk'][1] != cfg['chunk'][0]:
                continue
            both = (member[i] > 0) & (member[j] > 0) if W.sym else (member[i] > 0 and member[j] > 0)
            W.ob_true(f'no position belongs to segments {i} and {j}', ~both if W.sym else not both)


HARNESSES = {
    'pad': {'configs': cfg_pad, 'run': run_pad, 'small': 4},
    'subarray_window': {'configs': cfg_sub, 'run': run_sub, 'small': 8},
    'boundary_family': {'configs': cfg_bnd, 'run': run_bnd, 'small': 4},
    'rebin': {'configs': cfg_rebin, 'run': run_rebin, 'small': 4},
    'shapes': {'configs': cfg_shapes, 'run': run_shapes, 'small': 4, 'config_timeout_s': 600},
    'hex_segments': {'configs': cfg_hex, 'run': run_hex, 'small': 8, 'config_timeout_s': 600},
}

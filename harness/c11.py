"""C11 - Zernike modes are the Noll-ordered orthonormal polynomials."""
import itertools, random
from fractions import Fraction
import numpy as rnp
from specs import zern

EXPLANATION = ('C11: zernike_index on a symbolic Noll index (the explorer case-splits on the row and position, z3 decides each branch '
               'with the exact real square root), R on a symbolic radius, zernike() on symbolic (rho, theta) per sample and symbolic non-zero mask values, '
               'zernike_coordinates on every support of small arrays.')
BOUNDS = {
    'quick': 'Noll j in 1..45 (symbolic, split by the explorer); radial orders n <= 10; mode values j <= 21 on 2x2 samples; default coordinates: every non-empty support of arrays up to 3x3 (sampled 150) and 2x4/4x2',
    'thorough': 'j <= 120; n <= 16; mode values j <= 45; all supports up to 3x3, sampled 4x4',
}
ASSUMPTIONS = ['the sign convention of sine modes is lentil\'s signed-m one: odd j -> -sin(|m| theta) (the statement fixes cosine/sine, not the sign)',
               'orthonormality is evaluated on the exact radial coefficients extracted from lentil\'s R (closed rational integrals, no search); '
               'orthogonality as sampled sums on a pixel grid is only approximate and outside the claim']
STUBS = []


# ------------------------------------------------------------------ Noll index
def cfg_index(tier, seed):
    top = 45 if tier == 'quick' else 120
    blocks = [(lo, min(lo + 14, top)) for lo in range(1, top + 1, 15)]
    out = [{'lo': lo, 'hi': hi} for lo, hi in blocks]
    return out, len(out), True


def run_index(W, cfg):
    lt = W.lentil
    j = W.int('j', cfg['lo'], cfg['hi'])
    m, n = W.mod('zernike').zernike_index(j)
    # n is the unique row with n(n+1)/2 < j <= (n+1)(n+2)/2
    W.ob_true('row lower bound', n * (n + 1) < 2 * j)
    W.ob_true('row upper bound', 2 * j <= (n + 1) * (n + 2))
    am = abs(m) if not W.sym else W.abs(m)
    W.ob_true('|m| <= n', am <= n)
    # on each explored path n and the position are concrete, j may still range over the row: check the closed form per feasible j
    jj = int(j)           # realises j (solver-driven case split)
    nn, mm = zern.noll(jj)
    W.ob('n', n, nn)
    W.ob('m', m, mm)
    if jj in zern.NOLL:
        W.ob_true('closed form agrees with Noll\'s published table', zern.NOLL[jj] == (nn, mm))
    W.ob_true('n - |m| even', (nn - abs(mm)) % 2 == 0)


def cfg_inject(tier, seed):
    return [{'top': 45 if tier == 'quick' else 120}], 1, True


def run_inject(W, cfg):
    """two different Noll indices never give the same (n, m): follows from the per-j equality with the closed form; the
    closed form itself is checked for injectivity here by exhaustive comparison (finite, concrete)."""
    seen = {}
    ok = True
    for j in range(1, cfg['top'] + 1):
        k = zern.noll(j)
        if k in seen:
            ok = False
        seen[k] = j
    W.ob_true('closed form is one-to-one', ok)
    # the real mapping asked in descending, ascending and scattered order within one process: the answer for an index does not depend
    # on which indices were asked before
    Z = W.mod('zernike')
    top = cfg['top']
    order = list(range(top, 0, -1)) + list(range(1, top + 1)) + [(7 * k) % top + 1 for k in range(top)]
    bad = []
    for j in order:
        m, n = Z.zernike_index(j)
        nn, mm = zern.noll(j)
        if (int(n), int(m)) != (nn, mm):
            bad.append(j)
    W.ob_true('zernike_index agrees with the closed form whatever the order of the calls', not bad)


# ------------------------------------------------------------------ radial polynomials
def cfg_radial(tier, seed):
    top = 10 if tier == 'quick' else 16
    out = [{'n': n, 'm': m} for n in range(0, top + 1) for m in range(0, n + 1)]
    # high radial orders (factorials beyond 20! = the int64 range): closed form, R(1) = 1 and orthogonality only (the degree-n bound
    # obligations are left to the orders above)
    for n in ((20, 21, 22, 24, 27) if tier == 'quick' else (20, 21, 22, 23, 24, 25, 26, 27, 28, 30)):
        for m in sorted({n % 2, n % 2 + 2, n - 4, n - 2, n}):
            out.append({'n': n, 'm': m, 'light': True})
    return out, len(out), True


def run_radial(W, cfg):
    lt = W.lentil
    n, m = cfg['n'], cfg['m']
    rho = W.real('rho', nonneg=True)
    arr = W.array([rho])
    P = W.mod('zernike').R(m, n, arr)
    if (n - m) % 2:
        W.ob_true('odd n-m gives 0', (P == 0) if not hasattr(P, 'shape') else bool((P == 0).all()))
        return
    P0 = P[0]
    W.ob('R = binomial form', P0, zern.radial(n, m, rho))
    one = W.mod('zernike').R(m, n, rnp.array([1.0]))
    W.ob_true('R(1) = 1', abs(float(one[0]) - 1.0) < 1e-9)
    if not cfg.get('light'):
        W.assume(rho <= 1)
        W.ob_true('|R| <= 1 on [0,1] (upper)', P0 <= 1)
        W.ob_true('|R| <= 1 on [0,1] (lower)', P0 >= -1)
    else:
        half = W.mod('zernike').R(m, n, rnp.array([0.5, 0.75, 0.9]))
        W.ob_true('|R| <= 1 at rho = 1/2, 3/4, 9/10', bool((abs(half) <= 1 + 1e-9).all()))
    if W.sym:
        # orthonormality of the radial part: int_0^1 R_n^m R_n'^m rho drho = delta/(2(n+1)), exact on lentil's coefficients
        cf = W.poly_coeffs(P0, rho)
        for n2 in range(m, n + 1, 2):
            P2 = W.mod('zernike').R(m, n2, arr)[0]
            c2 = W.poly_coeffs(P2, rho)
            integral = sum(Fraction(a) * Fraction(b) / (p + q + 2) for p, a in cf.items() for q, b in c2.items())
            W.ob_true(f'radial orthogonality n={n}, n\'={n2}, m={m}', integral == (Fraction(1, 2 * (n + 1)) if n2 == n else 0))


# ------------------------------------------------------------------ mode values
def cfg_mode(tier, seed):
    top = 21 if tier == 'quick' else 45
    out = [{'j': j, 'normalize': nz} for j in range(1, top + 1) for nz in (True, False)]
    # the flag as 0 / 1 or a numpy boolean (the result of a comparison) means what the literal means
    out += [{'j': j, 'normalize': nz, 'nform': nf} for j in (1, 2, 4, 5, 7, 11) for nz in (True, False) for nf in ('int', 'npbool', 'npint')]
    return out, len(out), True


def run_mode(W, cfg):
    lt = W.lentil
    j = cfg['j']
    if cfg.get('nform'):
        cfg = dict(cfg, normalize={'int': int, 'npbool': rnp.bool_, 'npint': rnp.int64}[cfg['nform']](cfg['normalize']))
    shp = (2, 2)
    rho = W.reals('rho', shp, nonneg=True)
    theta = W.reals('th', shp)
    maskv = W.reals('mk', shp, nz=True)
    mask = W.array([[maskv[0, 0], 0], [maskv[1, 0], maskv[1, 1]]])
    rho0, theta0 = rho.copy(), theta.copy()
    Z = W.mod('zernike').zernike(mask, j, normalize=cfg['normalize'], rho=rho, theta=theta)
    W.ob('caller-supplied rho untouched', rho, rho0)
    W.ob('caller-supplied theta untouched', theta, theta0)
    Zagain = W.mod('zernike').zernike(mask, j, normalize=cfg['normalize'], rho=rho, theta=theta)
    W.ob('same coordinates, second call: same mode', Zagain, Z)
    n, m = zern.noll(j)
    want = []
    for r in range(2):
        row = []
        for c in range(2):
            if (r, c) == (0, 1):
                row.append(0)
                continue
            rad = zern.radial(n, m, rho[r, c])
            if m == 0:
                az, norm = 1, (W.sqrt(n + 1) if cfg['normalize'] else 1)
            else:
                az = W.cos(abs(m) * theta[r, c]) if j % 2 == 0 else -W.sin(abs(m) * theta[r, c])
                norm = W.sqrt(2 * (n + 1)) if cfg['normalize'] else 1
            row.append(norm * rad * az)
        want.append(row)
    W.ob('Z = [mask != 0] N R(rho) az(theta)', Z, W.array(want))


# ------------------------------------------------------------------ default coordinates
def cfg_coord(tier, seed):
    rng = random.Random(111 + seed)
    out = []
    shapes = [(1, 1), (1, 2), (2, 1), (2, 2), (2, 3), (3, 2), (3, 3), (2, 4), (4, 2)] + ([(4, 4), (3, 4)] if tier != 'quick' else [])
    for shp in shapes:
        n = shp[0] * shp[1]
        masks = list(range(1, 2 ** n))
        if len(masks) > (24 if tier == 'quick' else 511):
            masks = rng.sample(masks, 24 if tier == 'quick' else 511)
        for k, bits in enumerate(masks):
            out.append({'shape': list(shp), 'bits': bits, 'weights': 'symbolic' if k % 2 else 'concrete'})
    return out, len(out), False


def run_coord(W, cfg):
    lt = W.lentil
    shp = tuple(cfg['shape'])
    cells = [(r, c) for r in range(shp[0]) for c in range(shp[1])]
    sup = [cells[k] for k in range(len(cells)) if cfg['bits'] >> k & 1]
    if cfg.get('weights') == 'concrete':
        # asymmetric concrete mask values (an apodised / grey-level mask): only the support may matter
        vals = rnp.zeros(shp)
        for (r, c) in sup:
            vals[r, c] = 0.25 + ((3 * r + 5 * c) % 7) / 2.0
    else:
        vals = W.zeros(shp)
        for (r, c) in sup:
            vals[r, c] = W.real(f'mk_{r}_{c}', nz=True)
    if cfg.get('weights') == 'concrete' and len(sup) >= 2:
        vals = rnp.asfortranarray(vals) if (cfg['bits'] % 2) else rnp.ascontiguousarray(vals.T).T       # column-major storage / a transposed view: same mask
    # another mask of the same shape is evaluated first (same process): nothing of it may be remembered
    other = rnp.ones(shp)
    if other.size > 2:
        other[0, 0] = 0
        lt.zernike_coordinates(other)
        W.mod('zernike').zernike(other, 4, normalize=False)
    if len(sup) >= 2:
        # ... and the same mask with an explicit shift and rotation first: the default evaluation afterwards is still the default one
        lt.zernike_coordinates(vals, shift=(0.5, -0.25), rotate=30)
    rho, theta = lt.zernike_coordinates(vals)
    # centroid of the support (every supported sample counts once: the mask enters only through its support)
    cr = Fraction(sum(r for r, c in sup), len(sup))
    cc = Fraction(sum(c for r, c in sup), len(sup))
    r2 = {(r, c): (Fraction(r) - cr) ** 2 + (Fraction(c) - cc) ** 2 for (r, c) in cells}
    rmax2 = max(r2[x] for x in sup)
    if rmax2 == 0:
        return                      # a single sample at the centroid: rho = 0/0, nothing is claimed
    for (r, c) in cells:
        got = rho[r, c]
        W.ob_close(f'rho^2 [{r},{c}]', got * got, float(r2[(r, c)] / rmax2), 1e-9)
    # the angle is measured about the same centroid (x along -columns, y along -rows, as for a centred mask)
    import math as _m
    for (r, c) in cells:
        W.ob_close(f'rho cos(theta) about the centroid [{r},{c}]', rho[r, c] * W.np.cos(theta[r, c]), -float(Fraction(c) - cc) / _m.sqrt(rmax2), 1e-9)
        W.ob_close(f'rho sin(theta) about the centroid [{r},{c}]', rho[r, c] * W.np.sin(theta[r, c]), -float(Fraction(r) - cr) / _m.sqrt(rmax2), 1e-9)
    Z1 = W.mod('zernike').zernike(vals, 1)
    Z4 = W.mod('zernike').zernike(vals, 4, normalize=False)
    for (r, c) in cells:
        W.ob_close(f'piston = support [{r},{c}]', Z1[r, c] * 1.0, 1.0 if (r, c) in sup else 0.0, 1e-12)
        W.ob_close(f'focus 2rho^2-1 about the centroid [{r},{c}]', Z4[r, c] * 1.0, float(2 * r2[(r, c)] / rmax2 - 1) if (r, c) in sup else 0.0, 1e-9)


HARNESSES = {
    'noll_index': {'configs': cfg_index, 'run': run_index, 'small': 200, 'max_paths': 400},
    'noll_injective': {'configs': cfg_inject, 'run': run_inject},
    'radial': {'configs': cfg_radial, 'run': run_radial, 'small': 1},
    'mode_value': {'configs': cfg_mode, 'run': run_mode, 'small': 2},
    'default_coordinates': {'configs': cfg_coord, 'run': run_coord, 'small': 4},
}

"""C17 - resampling a plane changes its sampling, not its optics (bookkeeping clauses)."""
import itertools, math
from fractions import Fraction
import numpy as rnp

EXPLANATION = ('C17: Plane.rescale / resample / util.rescale with symbolic amplitude, OPD and pixel scale and exact-rational scale factors; '
               'scipy.ndimage.map_coordinates is linear in the data, so with the concrete coordinate grid its weights are the real scipy\'s (unit-vector realisation).')
BOUNDS = {'quick': 'plane shapes (2..4)^2 incl. non-square (sampled), monolithic and 2-segment masks, amplitude/OPD scalar or array, scale factors {1/2, 2/3, 3/4, 1, 5/4, 3/2, 2, 3}',
          'thorough': 'shapes up to 6, 3-segment masks, scale factors adding 5/2 and 4'}
ASSUMPTIONS = ['only the bookkeeping clauses are decided: pixel scale, array sizes, mask structure, the 1/s amplitude factor, identity at s = 1, untouched original, resample = rescale(pixelscale/p), extent within one sample',
               'preservation of power and of the propagated image "to interpolation accuracy" is an approximation statement about cubic splines on smooth data with no exact semantics to assert: outside the claim',
               'segmented masks: two segments of at least two columns each (a one-sample-wide segment on the array border can vanish under the nearest-neighbour mask interpolation: edge sampling, not in the statement)', 'scale factors are exact rationals (the interpolation grid must be concrete); amplitudes and OPD samples are non-zero on the whole array, so util.rescale\'s post-mask (derived from img != 0) is all ones']
STUBS = ['scipy.ndimage.map_coordinates: linear in the data; weights from the real scipy on unit arrays at the concrete coordinates']
SCALES = ['1/2', '2/3', '3/4', '1', '5/4', '3/2', '2', '3']


def configs(tier, seed):
    import random
    rng = random.Random(1717 + seed)
    shapes = [(2, 2), (2, 3), (3, 3), (3, 4), (4, 4)] + ([(5, 4), (6, 6)] if tier != 'quick' else [])
    scales = SCALES + (['5/2', '4'] if tier != 'quick' else [])
    out = []
    for shp in shapes:
        for sc in scales:
            if tier == 'quick' and shp[0] * shp[1] > 9 and Fraction(sc) > 2:
                continue
            forms = [('array', 'array', 1), ('array', 'scalar', 2), ('scalar', 'array', 1)]
            for amp, opd, nseg in ([rng.choice(forms)] if tier == 'quick' and sc not in ('1', '2', '1/2') else forms):
                if nseg == 2 and (shp[1] < 4 or Fraction(sc) < Fraction(3, 4)):
                    continue            # a segment would shrink to nothing: degenerate, not in the statement
                out.append({'shape': list(shp), 'scale': sc, 'amp': amp, 'opd': opd, 'nseg': nseg})
    # an aperture whose edge lies inside the array, under amplitude and OPD maps that are non-zero everywhere (a full-array piston/tilt map)
    for shp in ((4, 4), (3, 4)):
        for sc in ('3/4', '1', '5/4', '3/2', '2'):
            out.append({'shape': list(shp), 'scale': sc, 'amp': 'array', 'opd': 'array', 'nseg': 1, 'inner': True})
            if Fraction(sc) >= 1:
                out.append({'shape': list(shp), 'scale': sc, 'amp': 'array', 'opd': 'array', 'nseg': 2, 'inner': True})       # two segments with free edges
    return out, len(out), True


def run(W, cfg):
    lt = W.lentil
    W.float_constants()
    shp = tuple(cfg['shape'])
    s = Fraction(cfg['scale'])
    sv = W.const(s) if W.sym else float(s)
    px = (W.real('pxr', pos=True), W.real('pxc', pos=True))
    A = W.reals('a', shp, lo='1/4', hi=1) if cfg['amp'] == 'array' else W.real('a', lo='1/4', hi=1)
    O = W.reals('o', shp, lo=-1, hi=1, nz=True) if cfg['opd'] == 'array' else W.real('o', lo=-1, hi=1)
    if cfg.get('inner') and cfg['nseg'] == 2:
        mask = rnp.zeros((2,) + shp, dtype=int)
        mask[0, 1:-1, 1:2] = 1
        mask[1, 1:-1, 2:] = 1
    elif cfg.get('inner'):
        mask = rnp.zeros(shp, dtype=int)
        mask[1:-1, 1:] = 1
    elif cfg['nseg'] == 1:
        mask = rnp.ones(shp, dtype=int)
    else:
        mask = rnp.zeros((2,) + shp, dtype=int)
        mask[0, :, : shp[1] // 2] = 1
        mask[1, :, shp[1] // 2:] = 1
    A0 = A.copy() if hasattr(A, 'copy') else A
    O0 = O.copy() if hasattr(O, 'copy') else O
    p = lt.Pupil(amplitude=A, opd=O, mask=mask.copy(), pixelscale=px, focal_length=10.0)
    q = p.rescale(sv)
    newshape = (math.ceil(shp[0] * s), math.ceil(shp[1] * s))
    W.ob_true('a new plane is returned', not W.same(q, p))
    W.ob('pixelscale divided by exactly s', [q.pixelscale[0], q.pixelscale[1]], [px[0] / sv, px[1] / sv])
    W.ob('original pixelscale untouched', [p.pixelscale[0], p.pixelscale[1]], [px[0], px[1]])
    qm = W.concrete(q.mask)
    W.ob_true('mask has ceil(n*s) samples per axis', tuple(qm.shape[-2:]) == newshape)
    W.ob_true('mask binary', bool(rnp.isin(qm, (0, 1)).all()))
    W.ob_true('mask integer typed', qm.dtype.kind in 'iu')
    W.ob_true('same number of segments', (qm.shape[0] if qm.ndim == 3 else 1) == cfg['nseg'])
    if cfg['opd'] == 'array' and cfg['amp'] == 'array':
        # the plane's OPD (then its amplitude) replaced and the plane rescaled again by the same factor: the new data are what is
        # resampled (interpolation is linear in the data, so twice the OPD gives twice the rescaled OPD)
        q_opd, q_amp = q.opd.copy(), q.amplitude.copy()
        p.opd = O * 2
        q2 = p.rescale(sv)
        W.ob('OPD replaced, rescaled again by the same factor: the new OPD is resampled', q2.opd, q_opd * 2)
        p.amplitude = A * 2
        q3 = p.rescale(sv)
        W.ob('amplitude replaced, rescaled again by the same factor: the new amplitude is resampled', q3.amplitude, q_amp * 2)
        W.ob_true('every rescale returns a new plane', not W.same(q2, q) and not W.same(q3, q2))
        p.opd, p.amplitude = O, A
    H = W.mod('helper')
    segs = [qm] if qm.ndim == 2 else list(qm)
    if all(m.any() for m in segs):
        for k, m in enumerate(segs):
            want = H.boundary_slice(m)
            got = q._slice[k]
            W.ob_true(f'slice recomputed from the new mask [{k}]', (got[0].start, got[0].stop, got[1].start, got[1].stop) == (want[0].start, want[0].stop, want[1].start, want[1].stop))
    # the interpolation grid of the statement: ((k - ceil(n s)/2)/s + n/2)
    import scipy.ndimage
    if cfg['nseg'] > 1 and tuple(qm.shape[-2:]) == newshape:
        W.ob_true('segments stay mutually disjoint', bool((qm.sum(axis=0) <= 1).all()))
        gy0 = (rnp.arange(newshape[0], dtype=float) - newshape[0] / 2.) / float(s) + shp[0] / 2.
        gx0 = (rnp.arange(newshape[1], dtype=float) - newshape[1] / 2.) / float(s) + shp[1] / 2.
        xx0, yy0 = rnp.meshgrid(gx0, gy0)
        for k in range(cfg['nseg']):
            nn = scipy.ndimage.map_coordinates(mask[k].astype(float), [yy0, xx0], order=0, mode='constant')
            # interior samples only: a nearest-neighbour tie on a segment border may go either way
            inner = scipy.ndimage.map_coordinates(mask[k].astype(float), [yy0, xx0], order=1, mode='constant')
            sure = (inner == 0) | (inner == 1)
            W.ob_true(f'segment {k} mask = nearest-neighbour resampling of the original (away from border ties)', bool((qm[k][sure] == (nn[sure] != 0)).all()))
    gy = (rnp.arange(newshape[0], dtype=float) - newshape[0] / 2.) / float(s) + shp[0] / 2.
    gx = (rnp.arange(newshape[1], dtype=float) - newshape[1] / 2.) / float(s) + shp[1] / 2.
    xx, yy = rnp.meshgrid(gx, gy)

    def interp(arr, shp_in=None):
        shp_in = shp if shp_in is None else shp_in
        new_in = (math.ceil(shp_in[0] * s), math.ceil(shp_in[1] * s))
        gy_ = (rnp.arange(new_in[0], dtype=float) - new_in[0] / 2.) / float(s) + shp_in[0] / 2.
        gx_ = (rnp.arange(new_in[1], dtype=float) - new_in[1] / 2.) / float(s) + shp_in[1] / 2.
        xx_, yy_ = rnp.meshgrid(gx_, gy_)
        out = [[0] * new_in[1] for _ in range(new_in[0])]
        for idx in rnp.ndindex(*shp_in):
            e = rnp.zeros(shp_in)
            e[idx] = 1.0
            w = scipy.ndimage.map_coordinates(e, [yy_, xx_], order=3, mode='nearest')
            for o in rnp.ndindex(*new_in):
                if w[o] != 0.0:
                    out[o[0]][o[1]] = out[o[0]][o[1]] + arr[idx] * float(w[o])
        return out

    tol = 1e-9 * shp[0] * shp[1]
    if cfg['amp'] == 'array':
        W.ob_true('amplitude has ceil(n*s) samples per axis', tuple(q.amplitude.shape) == newshape)
        W.ob_close('amplitude = spline interpolation on the rescaled grid, divided by s', q.amplitude, W.array(interp(A0)) / sv, tol)
        W.ob('original amplitude untouched', p.amplitude, A0)
    else:
        W.ob('scalar amplitude unchanged', q.amplitude * 1, A0)
    if cfg['opd'] == 'array':
        W.ob_true('opd has ceil(n*s) samples per axis', tuple(q.opd.shape) == newshape)
        W.ob_close('opd = spline interpolation on the rescaled grid', q.opd, W.array(interp(O0)), tol)
        W.ob('original opd untouched', p.opd, O0)
    else:
        W.ob('scalar opd unchanged', q.opd * 1, O0)
    if cfg['amp'] == 'array' and cfg['nseg'] == 1:
        # a plane of another size that rescales to the same number of samples, at the same factor, later in the same process;
        # and a plane that carries no pixel scale: the sampling grid and the 1/s factor depend on neither
        for shp2 in ((shp[0] - 1, shp[1]), (shp[0], shp[1] + 1)):
            if min(shp2) >= 2 and (math.ceil(shp2[0] * s), math.ceil(shp2[1] * s)) == newshape:
                A2 = W.reals('e', shp2, lo='1/4', hi=1)
                q2 = lt.Pupil(amplitude=A2, mask=rnp.ones(shp2, dtype=int), pixelscale=px, focal_length=10.0).rescale(sv)
                W.ob_close(f'a {shp2[0]}x{shp2[1]} plane rescaled afterwards: amplitude = spline interpolation on its own grid, divided by s',
                           q2.amplitude, W.array(interp(A2, shp2)) / sv, tol)
                break
        q3 = lt.Pupil(amplitude=A0, opd=O0, mask=mask.copy(), focal_length=10.0).rescale(sv)
        W.ob_true('a plane without a pixel scale keeps none', q3.pixelscale is None)
        W.ob_close('a plane without a pixel scale: amplitude = spline interpolation divided by s', q3.amplitude, W.array(interp(A0)) / sv, tol)
        q4 = p.rescale(sv)
        W.ob_close('the first plane rescaled once more gives the same amplitude', q4.amplitude, q.amplitude, tol)
    # an OPD map that is identically zero is still a map: it comes back with the new number of samples
    pz = lt.Pupil(amplitude=A0, opd=rnp.zeros(shp), mask=mask.copy(), pixelscale=px, focal_length=10.0)
    qz = pz.rescale(sv)
    W.ob_true('an all-zero OPD map has ceil(n*s) samples per axis', tuple(rnp.shape(W.concrete(qz.opd))) == newshape)
    W.ob_true('an all-zero OPD map stays zero', bool((W.concrete(qz.opd) == 0).all()))
    W.ob_true('original mask untouched', bool((W.concrete(p.mask) == mask).all()))
    W.ob_true('original tilt list untouched', len(p.tilt) == 0)
    # the rescaled plane is a plane of its own: bookkeeping done on it afterwards (a fitted tilt, an in-place edit of a scalar attribute)
    # does not reach the original
    W.ob_true('the rescaled plane has its own tilt list', q.tilt is not p.tilt)
    q.tilt.append(lt.Tilt(x=0, y=0))
    W.ob_true('a tilt recorded on the rescaled plane does not appear on the original', len(p.tilt) == 0)
    q.tilt.pop()
    if cfg['opd'] == 'scalar':
        W.ob_true('the rescaled plane has its own scalar OPD array', q.opd is not p.opd)
    if cfg['amp'] == 'scalar':
        W.ob_true('the rescaled plane has its own scalar amplitude array', q.amplitude is not p.amplitude)
    if s == 1:
        if cfg['amp'] == 'array':
            W.ob_close('s = 1 is the identity (amplitude)', q.amplitude, A0, tol)
        if cfg['opd'] == 'array':
            W.ob_close('s = 1 is the identity (opd)', q.opd, O0, tol)
        W.ob_true('s = 1 is the identity (mask)', bool((qm == mask).all()))
    # physical extent preserved to within one (new) sample
    for ax in (0, 1):
        W.ob_true(f'extent preserved to within one sample [{ax}]', abs(newshape[ax] / s - shp[ax]) < 1 / s)
    # resample(p) = rescale(pixelscale/p), uniform sampling required
    u = W.real('pu', pos=True)
    pu = lt.Pupil(amplitude=A0, opd=O0, mask=mask.copy(), pixelscale=u, focal_length=10.0)
    r = pu.resample(u / sv)
    W.ob('resample: new pixel scale', [r.pixelscale[0], r.pixelscale[1]], [u / sv, u / sv])
    if cfg['amp'] == 'array':
        W.ob('resample = rescale(pixelscale / new pixelscale)', r.amplitude, q.amplitude)
    same_ps = pu.resample(u)
    W.ob_true('resample to the plane\'s own pixel scale still returns a new plane', not W.same(same_ps, pu))
    W.ob('resample to the plane\'s own pixel scale: pixel scale unchanged', [same_ps.pixelscale[0], same_ps.pixelscale[1]], [u, u])
    try:
        p.resample(px[0])
        W.ob_true('non-uniform sampling refused', not W.is_true(px[0] != px[1]))
    except NotImplementedError:
        W.ob_ok('non-uniform sampling refused')
    # amplitude / OPD held as integers, unsigned bytes or booleans (a binary aperture reused as the amplitude, counts of nanometres):
    # the rescaled plane is the one obtained from the same numbers held as floats (amplitude carries 1/s, power is conserved)
    def typed_ok():
        import numpy as real
        base = (real.arange(shp[0] * shp[1]).reshape(shp) % 3 + 1)
        m2 = mask.copy()
        for dt in (int, real.uint8, real.int16, bool, real.float32):
            a_t = (base > 0).astype(dt) if dt is bool else base.astype(dt)
            o_t = (base % 2).astype(dt) if dt is bool else (base * 2 - 3).astype(dt) if dt is not real.uint8 else base.astype(dt)
            typed = lt.Pupil(amplitude=a_t, opd=o_t, mask=m2.copy(), pixelscale=(1.0, 1.0), focal_length=10.0).rescale(float(s))
            ref = lt.Pupil(amplitude=a_t.astype(float), opd=o_t.astype(float), mask=m2.copy(), pixelscale=(1.0, 1.0), focal_length=10.0).rescale(float(s))
            tol = 1e-6 if dt is real.float32 else 1e-12
            if not (real.allclose(real.asarray(typed.amplitude, dtype=float), ref.amplitude, rtol=tol, atol=tol) and real.allclose(real.asarray(typed.opd, dtype=float), ref.opd, rtol=tol, atol=tol)):
                return False
        return True
    W.ob_concrete('integer / byte / boolean / float32 amplitude and OPD rescale like the same numbers held as floats', typed_ok)
    try:
        lt.Pupil(amplitude=A0, mask=mask.copy()).resample(1.0)
        W.ob_fail('undefined pixel scale refused')
    except ValueError:
        W.ob_ok('undefined pixel scale refused')


HARNESSES = {'rescale_bookkeeping': {'configs': configs, 'run': run, 'small': 1, 'validate_paths': 1}}

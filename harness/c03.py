"""C03 - splitting an aperture into segments or sub-arrays never changes the result."""
import itertools, random
import numpy as rnp
from specs import optics

EXPLANATION = ('C03: the same aperture described by one global mask and by a partition into per-segment masks (3-D stack, blocks may '
               'interleave so that bounding boxes overlap or nest), through Pupil (x second masked Pupil) -> propagate_dft -> field and intensity.')
BOUNDS = {
    'quick': 'pupil arrays <= 3x3 incl. non-square; supports of 2..5 cells; set partitions into 1..3 blocks (420 sampled + fixed); '
             'one or two masked planes, optionally a Tilt before and a default / all-scalar / Tilt plane after them; oversample 1..2; shape n / n+1; prop_shape = shape / shape-1',
    'thorough': 'pupil arrays <= 4x4; supports of 2..6 cells; partitions into 1..4 blocks (1500 sampled + fixed)',
}
ASSUMPTIONS = ['wavelength, focal length, pixel scales > 0; amplitude/OPD arbitrary reals']
STUBS = []


def partitions(items, kmax):
    """all set partitions of items into at most kmax blocks"""
    if not items:
        yield []
        return
    first, rest = items[0], items[1:]
    for p in partitions(rest, kmax):
        for i in range(len(p)):
            yield p[:i] + [[first] + p[i]] + p[i + 1:]
        if len(p) < kmax:
            yield [[first]] + p


def configs(tier, seed):
    rng = random.Random(303 + seed)
    top, smax, kmax, want = (3, 5, 3, 420) if tier == 'quick' else (4, 6, 4, 1500)
    out = []
    for _ in range(want):
        nr, nc = rng.randint(1, top), rng.randint(1, top)
        cells = [(r, c) for r in range(nr) for c in range(nc)]
        if len(cells) < 2:
            continue
        sup = rng.sample(cells, rng.randint(2, min(smax, len(cells))))
        sup.sort()
        parts = list(partitions(sup, kmax))
        part = rng.choice(parts)
        os = rng.randint(1, 2)
        grow = rng.choice([0, 1])
        shape = [max(1, nr + grow), max(1, nc + grow)]
        shrink = rng.choice([0, 1])
        prop = [max(1, shape[0] - shrink), max(1, shape[1] - shrink)]
        second = None
        if rng.random() < 0.4:
            sup2 = rng.sample(cells, rng.randint(1, len(cells)))
            sup2.sort()
            p2 = rng.choice(list(partitions(sup2, 2)))
            second = [[list(x) for x in b] for b in p2]
        out.append({'n': [nr, nc], 'blocks': [[list(x) for x in b] for b in part], 'second': second, 'os': os, 'shape': shape, 'prop': prop,
                    'omask': rng.random() < 0.35})
        # planes without arrays around the aperture: a tilt picked up before it, and a default / all-scalar / tilt plane after it
        # (tilt angles are fixed multiples of du/f, so the image displacement is a concrete number of samples)
        if not out[-1]['omask'] and second is None and len(part) >= 2 and rng.random() < 0.35:
            out[-1]['segtilt'] = True      # each segment carries its own sub-sample tilt as metadata; the monolithic description has it in the OPD
        elif not out[-1]['omask'] and second is None and rng.random() < 0.3:
            out[-1]['fft'] = rng.choice([max(nr, nc), max(nr, nc) + 1])          # the FFT propagator on a grid of that many samples per axis
        if out[-1]['omask'] and rng.random() < 0.6:
            # an output mask that is a random rectangle of the oversampled output (bounding boxes of either parity anywhere)
            S0 = (shape[0] * os, shape[1] * os)
            r0, c0 = rng.randrange(S0[0]), rng.randrange(S0[1])
            out[-1]['omask'] = [r0, rng.randrange(r0, S0[0]), c0, rng.randrange(c0, S0[1])]
        if rng.random() < 0.3:
            out[-1]['pre'] = rng.choice([['4/3', '1/3'], ['-1/3', '-4/3'], ['1/3', '-2/3'], ['-2/3', '5/3']])      # thirds before, fifths after: no sum (x oversample) is a whole number of samples
        if rng.random() < 0.45:
            out[-1]['post'] = rng.choice(['default', 'scalar', 'scalar', ['tilt', '1/5', '6/5'], ['tilt', '-3/5', '2/5'], ['tilt', '6/5', '-4/5']])
    fixed = [
        # nested bounding boxes: block 0 surrounds block 1
        {'n': [3, 3], 'blocks': [[[0, 0], [2, 2], [0, 2], [2, 0]], [[1, 1]]], 'second': None, 'os': 2, 'shape': [3, 3], 'prop': [3, 3]},
        # checkerboard: interleaved blocks
        {'n': [3, 3], 'blocks': [[[0, 0], [0, 2], [1, 1], [2, 0], [2, 2]], [[0, 1], [1, 0], [1, 2], [2, 1]]], 'second': None, 'os': 1, 'shape': [4, 4], 'prop': [3, 3]},
        # single-cell segments
        {'n': [2, 3], 'blocks': [[[0, 0]], [[1, 2]], [[0, 1]]], 'second': None, 'os': 2, 'shape': [2, 3], 'prop': [2, 3]},
        {'n': [3, 2], 'blocks': [[[0, 0], [1, 0]], [[2, 1], [1, 1]]], 'second': [[[0, 0], [1, 1]], [[2, 0], [2, 1], [1, 0]]], 'os': 1, 'shape': [3, 3], 'prop': [2, 2]},
        # an off-centre aperture followed by planes that carry no arrays; tilts before and after a segmented aperture
        {'n': [3, 3], 'blocks': [[[0, 2]], [[1, 2], [0, 1]]], 'second': None, 'os': 1, 'shape': [3, 3], 'prop': [3, 3], 'post': 'default'},
        {'n': [2, 3], 'blocks': [[[0, 2], [1, 2]]], 'second': None, 'os': 2, 'shape': [3, 3], 'prop': [3, 3], 'post': 'scalar'},
        {'n': [3, 3], 'blocks': [[[0, 0]], [[2, 2]], [[0, 2]]], 'second': None, 'os': 1, 'shape': [4, 4], 'prop': [4, 4], 'pre': ['4/3', '1/3'], 'post': ['tilt', '1/5', '6/5']},
        {'n': [3, 2], 'blocks': [[[0, 0], [1, 1]], [[2, 1]]], 'second': [[[0, 0], [2, 1]], [[1, 1]]], 'os': 1, 'shape': [3, 3], 'prop': [3, 3], 'pre': ['1/3', '-2/3'], 'post': ['tilt', '6/5', '-4/5']},
        # planes returned by rescale(): the segmented description is rescaled segment by segment, the result is the same
        {'n': [2, 3], 'blocks': [[[0, 0], [1, 0]], [[0, 2], [1, 2], [1, 1]]], 'second': None, 'os': 1, 'shape': [2, 2], 'prop': [2, 2], 'rescale': '2'},
        {'n': [2, 2], 'blocks': [[[0, 0]], [[0, 1], [1, 1]]], 'second': None, 'os': 1, 'shape': [2, 3], 'prop': [2, 3], 'rescale': '2'},
        # one segment given as a one-layer cube
        {'n': [3, 3], 'blocks': [[[0, 1], [1, 1], [1, 2]]], 'second': None, 'os': 1, 'shape': [3, 3], 'prop': [3, 3]},
        {'n': [2, 3], 'blocks': [[[0, 0], [1, 2]]], 'second': [[[0, 0], [0, 1], [1, 2]]], 'os': 2, 'shape': [3, 3], 'prop': [2, 3]},
    ]
    out = fixed + out
    return out, len(out), False


def _stack(blocks, shp):
    m = rnp.zeros((len(blocks),) + shp, dtype=int)
    for k, b in enumerate(blocks):
        for r, c in b:
            m[k, r, c] = 1
    return m


def run(W, cfg):
    lt = W.lentil
    shp = tuple(cfg['n'])
    A = W.reals('a', shp)
    O = W.reals('o', shp)
    lam = W.real('lam', pos=True)
    f = W.real('f', pos=True)
    dx = (W.real('dxr', pos=True), W.real('dxc', pos=True))
    du = (W.real('dur', pos=True), W.real('duc', pos=True))
    stack = _stack(cfg['blocks'], shp)
    union = (stack.sum(axis=0) > 0).astype(int)
    variants = {
        'mono': lt.Pupil(amplitude=A, opd=O, mask=union.copy(), pixelscale=dx, focal_length=f),
        'seg': lt.Pupil(amplitude=A, opd=O, mask=(stack.copy() if len(cfg['blocks']) > 1 else stack[0].copy()), pixelscale=dx, focal_length=f),
    }
    if len(cfg['blocks']) == 1:
        # the k = 1 corner of the quantifier written as a one-layer cube
        variants['cube'] = lt.Pupil(amplitude=A, opd=O, mask=stack.copy(), pixelscale=dx, focal_length=f)
    if cfg.get('segtilt') and len(cfg['blocks']) >= 2 and not cfg.get('pre') and not cfg.get('post') and not cfg.get('rescale'):
        from fractions import Fraction as _Ft
        # below half a sample at oversample 1 and 2, never on a whole sample: every segment keeps the undisplaced window
        subs = [(_Ft(1, 3), _Ft(-2, 5)), (_Ft(-1, 3), _Ft(1, 5)), (_Ft(1, 5), _Ft(2, 5)), (_Ft(-2, 5), _Ft(-1, 3))]
        angs = [(W.const(subs[g][0]) * du[0] / (f * cfg['os']), -(W.const(subs[g][1]) * du[1]) / (f * cfg['os'])) for g in range(len(cfg['blocks']))]
        ramp = W.zeros(shp)
        for g, b in enumerate(cfg['blocks']):
            for (r, c) in b:
                ramp[r, c] = angs[g][0] * ((r - shp[0] // 2) * dx[0]) - angs[g][1] * ((c - shp[1] // 2) * dx[1])
        variants['mono'] = lt.Pupil(amplitude=A, opd=O + ramp, mask=union.copy(), pixelscale=dx, focal_length=f)
        variants['seg'].tilt = [lt.Tilt(x=a[0], y=a[1]) for a in angs]
        O = O + ramp                        # the whole-array variant below carries the ramp in its OPD as well
    # whole-array variant: mask of ones, amplitude already zero off the support
    Az = W.zeros(shp)
    for r in range(shp[0]):
        for c in range(shp[1]):
            if union[r, c]:
                Az[r, c] = A[r, c]
    variants['whole'] = lt.Pupil(amplitude=Az, opd=O, mask=rnp.ones(shp, dtype=int), pixelscale=dx, focal_length=f)
    if cfg.get('rescale'):
        from fractions import Fraction as _Fq
        W.float_constants()
        sc = _Fq(cfg['rescale'])
        variants = {k: p_.rescale(W.const(sc) if W.sym else float(sc)) for k, p_ in variants.items() if k != 'whole'}
    second = {}
    if cfg['second']:
        A2 = W.reals('b', shp)
        O2 = W.reals('p', shp)
        st2 = _stack(cfg['second'], shp)
        un2 = (st2.sum(axis=0) > 0).astype(int)
        second['mono'] = lt.Pupil(amplitude=A2, opd=O2, mask=un2.copy(), pixelscale=dx, focal_length=f)
        second['seg'] = lt.Pupil(amplitude=A2, opd=O2, mask=(st2.copy() if len(cfg['second']) > 1 else st2[0].copy()), pixelscale=dx, focal_length=f)
        second['whole'] = second['mono']
        second['cube'] = lt.Pupil(amplitude=A2, opd=O2, mask=(st2.copy() if len(cfg['second']) > 1 else st2[:1].copy()), pixelscale=dx, focal_length=f)
    from fractions import Fraction as _Fr

    def _tilt(c):
        cx, cy = (W.const(_Fr(str(v))) for v in c)
        return lt.Tilt(x=cx * du[0] / f, y=cy * du[1] / f)
    post = cfg.get('post')
    if post == 'scalar':
        sa, so = W.real('sa'), W.real('so')
    res = {}
    for name, plane in variants.items():
        w = lt.Wavefront(lam)
        if cfg.get('pre'):
            w = w * _tilt(cfg['pre'])
        w = w * plane
        if second:
            w = w * second[name]
        if post == 'default':
            w = w * lt.Pupil(focal_length=f)
        elif post == 'scalar':
            w = w * lt.Pupil(amplitude=sa, opd=so, focal_length=f, pixelscale=dx)
        elif post:
            w = w * _tilt(post[1:])
        omask = None
        if cfg.get('omask'):
            S0 = (cfg['shape'][0] * cfg['os'], cfg['shape'][1] * cfg['os'])
            omask = rnp.zeros(S0, dtype=int)
            if isinstance(cfg['omask'], list):
                r0, r1, c0, c1 = cfg['omask']
                omask[r0:r1 + 1, c0:c1 + 1] = 1
            else:
                omask[S0[0] // 2:, : max(1, S0[1] - 1)] = 1          # an off-centre box: the window is clipped, the DFT gets a non-zero shift
        if cfg.get('fft') and not cfg.get('pre') and not isinstance(cfg.get('post'), list):        # (the FFT propagator refuses tilted wavefronts: C09)
            Nf = cfg['fft']
            duf = (lam * f / (Nf * dx[0]), lam * f / (Nf * dx[1]))            # 1/alpha = Nf exactly on both axes
            if 'fft_scratch' not in res:
                res['fft_scratch'] = W.complexes('scr', (Nf + 2, Nf + 1))          # one dirty buffer shared by the three descriptions
            o = lt.propagate_fft(w, pixelscale=duf, oversample=1, scratch=res['fft_scratch']) if cfg['fft'] % 2 == 0 else lt.propagate_fft(w, pixelscale=duf, oversample=1)
            if cfg['fft'] % 2 == 0:
                W.ob(f'{name}: with the shared scratch = without a scratch', o.field, lt.propagate_fft(w, pixelscale=duf, oversample=1).field)
        else:
            o = lt.propagate_dft(w, pixelscale=du, shape=tuple(cfg['shape']), prop_shape=tuple(cfg['prop']), oversample=cfg['os'], mask=omask)
        f1, i1 = o.field, o.intensity
        f2, i2 = o.field, o.intensity
        W.ob(f'{name}: reading the field again after the intensity gives the same field', f2, f1)
        W.ob(f'{name}: reading the intensity twice gives the same intensity', i2, i1)
        res[name] = (f1, i1)
    res.pop('fft_scratch', None)
    S = res['mono'][0].shape
    W.ob('field seg=mono', res['seg'][0], res['mono'][0])
    if 'whole' in res:
        W.ob('field whole=mono', res['whole'][0], res['mono'][0])
    W.ob('intensity seg=mono', res['seg'][1], res['mono'][1])
    if 'whole' in res:
        W.ob('intensity whole=mono', res['whole'][1], res['mono'][1])
    if 'cube' in res:
        W.ob('field one-layer cube=mono', res['cube'][0], res['mono'][0])
        W.ob('intensity one-layer cube=mono', res['cube'][1], res['mono'][1])
    fs = res['seg'][0]
    W.ob('intensity seg coherent', res['seg'][1], W.array([[W.abs2(fs[i, j]) for j in range(S[1])] for i in range(S[0])]))
    # and against the defining sum (ties the common value to C02's reference)
    sup = [tuple(x) for b in cfg['blocks'] for x in b]
    if not cfg['second'] and not cfg.get('pre') and not cfg.get('post') and not cfg.get('fft') and not cfg.get('rescale') and not cfg.get('segtilt'):
        wr = optics.centre_window(S[0], cfg['prop'][0] * cfg['os'])
        wc = optics.centre_window(S[1], cfg['prop'][1] * cfg['os'])
        samples = [((r, c), optics.phasor(W, A[r, c], O[r, c], lam)) for r, c in sup]
        bb = (0, S[0] - 1, 0, S[1] - 1)
        if cfg.get('omask'):
            S0 = (cfg['shape'][0] * cfg['os'], cfg['shape'][1] * cfg['os'])
            om = rnp.zeros(S0, dtype=int)
            if isinstance(cfg['omask'], list):
                om[cfg['omask'][0]:cfg['omask'][1] + 1, cfg['omask'][2]:cfg['omask'][3] + 1] = 1
            else:
                om[S0[0] // 2:, : max(1, S0[1] - 1)] = 1
            bb = optics.bbox(om.tolist())
        want = optics.fraunhofer(W, samples, shp, lam, f, dx, du, cfg['os'], S,
                                 lambda i, j: wr[0] <= i <= wr[1] and wc[0] <= j <= wc[1] and bb[0] <= i <= bb[1] and bb[2] <= j <= bb[3])
        W.ob('field seg=sum', res['seg'][0], W.array(want))


def cfg_chain(tier, seed):
    """fields that overlap only transitively (A-C-B chains) in every order: all of them must be summed coherently"""
    chain = [{'shape': [1, 2], 'offset': [0, -2]}, {'shape': [1, 2], 'offset': [0, 2]}, {'shape': [1, 5], 'offset': [0, 0]}]
    chain2 = [{'shape': [2, 2], 'offset': [-2, 0]}, {'shape': [2, 2], 'offset': [2, 0]}, {'shape': [5, 1], 'offset': [0, 0]}, {'shape': [1, 1], 'offset': [3, 0]}]
    out = [{'S': [3, 7], 'fields': [chain[i] for i in perm], 'T': [3, 7]} for perm in itertools.permutations(range(3))]
    out += [{'S': [7, 3], 'fields': [chain2[i] for i in perm], 'T': [7, 3]} for perm in list(itertools.permutations(range(4)))[::3]]
    # a single sample that touches neither of two overlapping 3x3 fields but lies inside their joint bounding box: once those two are one
    # group it belongs to it, and the group keeps both of its fields
    chain3 = [{'shape': [1, 1], 'offset': [-2, 2]}, {'shape': [3, 3], 'offset': [-1, -1]}, {'shape': [3, 3], 'offset': [1, 1]}]
    out += [{'S': [5, 5], 'fields': [chain3[i] for i in perm], 'T': [5, 5]} for perm in itertools.permutations(range(3))]
    return out, len(out), True


def run_chain(W, cfg):
    from harness import c07
    c07.run_views(W, cfg)


HARNESSES = {'segmented_vs_monolithic': {'configs': configs, 'run': run, 'small': 4},
             'coherent_chain': {'configs': cfg_chain, 'run': run_chain, 'small': 4}}

"""C06 - Field and extent bookkeeping equals arithmetic on an infinite zero-padded plane."""
import itertools, random
import numpy as rnp
from specs import fieldspec as fs

EXPLANATION = ('C06: field.insert / Field.__mul__ / merge / reduce / extent helpers with symbolic integer offsets of either sign (unbounded: '
               'the explorer partitions the offset plane into the geometric cases, z3 decides each), symbolic complex contents, enumerated shapes.')
BOUNDS = {
    'quick': 'field and target shapes 1..3 per axis (all 81 pairs for insert, sampled for products/merges), 0-d scalars included; reduce over 2..3 fields with offsets in a symbolic range |k| <= 3; extent helpers on fully symbolic integer extents',
    'thorough': 'shapes 1..4; reduce over 2..4 fields',
}
ASSUMPTIONS = ['a one-element field of shape () is the infinite constant; a (1,1) array is an ordinary one-sample array',
               'offsets are arbitrary integers (|k| <= 2^20 to keep models readable); reduce: |k| <= 3 so that the path count stays bounded']
STUBS = []
BIG = 1 << 20


def _off(W, name, lim=BIG):
    return [W.int(name + 'r', -lim, lim), W.int(name + 'c', -lim, lim)]


# ------------------------------------------------------------------ insert
def cfg_insert(tier, seed):
    top = 3 if tier == 'quick' else 4
    out = []
    for fr, fc, R, C in itertools.product(range(1, top + 1), repeat=4):
        out.append({'f': [fr, fc], 'out': [R, C], 'intensity': (fr + fc + R + C) % 2 == 1})
    return out, len(out), True


def run_insert(W, cfg):
    lt = W.lentil
    fshape, oshape = tuple(cfg['f']), tuple(cfg['out'])
    data = W.complexes('d', fshape)
    off = _off(W, 'k')
    fld = lt.field.Field(data=data, offset=off)
    intensity = cfg['intensity']
    prior = W.reals('p', oshape) if intensity else W.complexes('p', oshape)
    buf = prior.copy()
    wt = W.real('w')
    try:
        ret = lt.field.insert(fld, buf, intensity=intensity, weight=wt)
    except Exception as e:
        W.ob_fail(f'insert raised {type(e).__name__} (all, some or none of the field may fall inside the array)')
        return
    W.ob_true('returns out', W.same(ret, buf))
    want = []
    for i in range(oshape[0]):
        row = []
        for j in range(oshape[1]):
            e = fs.emb(W, data, off, i - oshape[0] // 2, j - oshape[1] // 2)
            row.append(prior[i, j] + wt * (W.abs2(e) if intensity else e))
        want.append(row)
    W.ob('out', buf, W.array(want))


# ------------------------------------------------------------------ multiply
def _deltas(D):
    return [(a, b) for a in range(-D, D + 1) for b in range(-D, D + 1)]


def cfg_mul(tier, seed):
    rng = random.Random(606 + seed)
    top = 3 if tier == 'quick' else 4
    shapes = [()] + [(a, b) for a in range(1, top + 1) for b in range(1, top + 1)]
    pairs = [(a, b) for a in shapes for b in shapes]
    rng.shuffle(pairs)
    keep = [p for p in pairs if p[0] == () or p[1] == ()][:8] + [p for p in pairs if p[0] != () and p[1] != ()][:(16 if tier == 'quick' else 60)]
    keep += [((), ()), ((1, 1), (1, 1)), ((1, 1), (3, 3)), ((3, 2), (2, 3)), ((2, 2), (2, 2)), ((2, 3), (2, 3)), ((3, 3), (3, 3))]       # equal shapes at different, overlapping places
    out = []
    for a, b in keep:
        ds = _deltas(top + 1)
        if tier == 'quick':
            ds = rng.sample(ds, 30) + [(0, 0)]
        for d in ds:
            out.append({'a': list(a), 'b': list(b), 'delta': list(d)})
    # the offsets of the two operands held in different containers (lentil itself mixes lists and tuples)
    for a, b in (((), ()), ((), (2, 2)), ((1, 1), ())):
        for ca, cb in (('list', 'tuple'), ('tuple', 'list'), ('tuple', 'tuple'), ('ndarray', 'list')):
            for d in ((0, 0), (1, 0)):
                out.append({'a': list(a), 'b': list(b), 'delta': list(d), 'containers': [ca, cb]})
    return out, len(out), False


def run_mul(W, cfg):
    lt = W.lentil
    sa, sb = tuple(cfg['a']), tuple(cfg['b'])
    da = W.complexes('a', sa) if sa else W.cx('a')
    db = W.complexes('b', sb) if sb else W.cx('b')
    oa = _off(W, 'ka')
    ob = [oa[0] + cfg['delta'][0], oa[1] + cfg['delta'][1]]
    box = {'list': list, 'tuple': tuple, 'ndarray': lambda o: W.array(list(o)) if W.sym else rnp.array(list(o))}
    ca, cb = cfg.get('containers', ['list', 'list'])
    fa = lt.field.Field(data=da, offset=box[ca](oa))
    fb = lt.field.Field(data=db, offset=box[cb](ob))
    ta, tb = object(), object()
    fa.tilt, fb.tilt = [ta], [tb]
    c = fa * fb
    W.ob_true('tilt lists concatenate in order', len(c.tilt) == 2 and c.tilt[0] is ta and c.tilt[1] is tb)
    ea, eb = fs.extent(sa, oa), fs.extent(sb, ob)
    if c.size == 0:
        # allowed only where the product of the embeddings is identically zero
        if ea is None and eb is None:
            W.ob_fail('empty product of two infinite constants')
            return
        ref, eref, oth, ooth = (da, ea, db, ob) if ea is not None else (db, eb, da, oa)
        refoff = oa if ea is not None else ob
        for i in range(ref.shape[0]):
            for j in range(ref.shape[1]):
                r, cc = eref[0] + i, eref[2] + j
                W.ob(f'empty => product 0 at ({i},{j})', ref[i, j] * fs.emb(W, oth, ooth, r, cc), 0)
        return
    cs = tuple(c.data.shape)
    if not cs:
        W.ob('scalar product', c.data[()], (da[()] if hasattr(da, '__getitem__') else da) * (db[()] if hasattr(db, '__getitem__') else db))
        return
    ec = fs.extent(cs, c.offset)
    # every cell of the result is the product of the embeddings there
    for x in range(cs[0]):
        for y in range(cs[1]):
            r, cc = ec[0] + x, ec[2] + y
            W.ob(f'c[{x},{y}] = emb_a * emb_b', c.data[x, y], fs.emb(W, da, oa, r, cc) * fs.emb(W, db, ob, r, cc))
    # and nothing of the product lies outside the result: every cell of a (resp. b) outside c's extent has product 0
    ref, eref = (da, ea) if ea is not None else (db, eb)
    oth, ooth = (db, ob) if ea is not None else (da, oa)
    for i in range(ref.shape[0]):
        for j in range(ref.shape[1]):
            r, cc = eref[0] + i, eref[2] + j
            prod = ref[i, j] * fs.emb(W, oth, ooth, r, cc)
            W.ob(f'product at cell ({i},{j}) of the first array operand is what c holds there', fs.emb(W, c.data, c.offset, r, cc), prod)


# ------------------------------------------------------------------ merge
def cfg_merge(tier, seed):
    rng = random.Random(616 + seed)
    top = 3 if tier == 'quick' else 4
    shapes = [(a, b) for a in range(1, top + 1) for b in range(1, top + 1)]
    pairs = [(a, b) for a in shapes for b in shapes]
    rng.shuffle(pairs)
    out = []
    for a, b in pairs[:(10 if tier == 'quick' else 50)]:
        ds = _deltas(top + 1)
        if tier == 'quick':
            ds = rng.sample(ds, 24) + [(0, 0)]
        for d in ds:
            out.append({'a': list(a), 'b': list(b), 'enforce': rng.random() < 0.5, 'delta': list(d)})
    return out, len(out), False


def run_merge(W, cfg):
    lt = W.lentil
    sa, sb = tuple(cfg['a']), tuple(cfg['b'])
    da, db = W.complexes('a', sa), W.complexes('b', sb)
    oa = _off(W, 'ka')
    ob = [oa[0] + cfg['delta'][0], oa[1] + cfg['delta'][1]]
    fa = lt.field.Field(data=da, offset=oa, pixelscale=1)
    fb = lt.field.Field(data=db, offset=ob, pixelscale=1)
    ea, eb = fs.extent(sa, oa), fs.extent(sb, ob)
    disjoint = W.is_true((ea[1] < eb[0]) | (eb[1] < ea[0]) | (ea[3] < eb[2]) | (eb[3] < ea[2])) if W.sym else (ea[1] < eb[0] or eb[1] < ea[0] or ea[3] < eb[2] or eb[3] < ea[2])
    try:
        c = lt.field.merge(fa, fb, enforce_overlap=cfg['enforce'])
    except ValueError:
        W.ob_true('ValueError only when overlap is enforced and the extents are disjoint', cfg['enforce'] and disjoint)
        return
    W.ob_true('disjoint fields are refused when overlap is enforced', not (cfg['enforce'] and disjoint))
    cs = tuple(c.data.shape)
    ec = fs.extent(cs, c.offset)
    for x in range(cs[0]):
        for y in range(cs[1]):
            r, cc = ec[0] + x, ec[2] + y
            W.ob(f'c[{x},{y}] = emb_a + emb_b', c.data[x, y], fs.emb(W, da, oa, r, cc) + fs.emb(W, db, ob, r, cc))
    for nm, d, e in (('a', da, ea), ('b', db, eb)):
        W.ob_true(f'{nm} inside merged extent', (e[0] >= ec[0]) & (e[1] <= ec[1]) & (e[2] >= ec[2]) & (e[3] <= ec[3]) if W.sym else (e[0] >= ec[0] and e[1] <= ec[1] and e[2] >= ec[2] and e[3] <= ec[3]))
    if True:
        fc = lt.field.Field(data=db, offset=ob, pixelscale=2)
        try:
            lt.field._merge((fa, fc))
            W.ob_fail('unequal pixelscales refused')
        except ValueError:
            W.ob_ok('unequal pixelscales refused')


# ------------------------------------------------------------------ reduce
def cfg_reduce(tier, seed):
    rng = random.Random(626 + seed)
    top, kmax, want = (3, 3, 400) if tier == 'quick' else (3, 4, 800)
    out = []
    for _ in range(want):
        k = rng.randint(2, kmax)
        out.append({'shapes': [[rng.randint(1, top), rng.randint(1, top)] for _ in range(k)],
                    'offs': [[rng.randint(-3, 3), rng.randint(-3, 3)] for _ in range(k)]})
    return out, len(out), False


def run_reduce(W, cfg):
    """k fields at a common symbolic (unbounded) base offset plus enumerated relative offsets."""
    lt = W.lentil
    fields, datas, offs = [], [], []
    base = _off(W, 'k')
    for n, shp in enumerate(cfg['shapes']):
        d = W.complexes(f'z{n}', tuple(shp))
        o = [base[0] + cfg['offs'][n][0], base[1] + cfg['offs'][n][1]]
        datas.append(d)
        offs.append(o)
        fields.append(lt.field.Field(data=d, offset=o, pixelscale=1))
    out = lt.field.reduce(fields)
    exts = [fs.extent(tuple(f.data.shape), f.offset) for f in out]
    for i in range(len(out)):
        for j in range(i + 1, len(out)):
            a, b = exts[i], exts[j]
            dis = (a[1] < b[0]) | (b[1] < a[0]) | (a[3] < b[2]) | (b[3] < a[2]) if W.sym else (a[1] < b[0] or b[1] < a[0] or a[3] < b[2] or b[3] < a[2])
            W.ob_true(f'outputs {i},{j} do not overlap', dis)
    # same total at every cell of every output, and every input cell is covered by the outputs
    def tot_in(r, c):
        return W.sum(fs.emb(W, d, o, r, c) for d, o in zip(datas, offs))

    def tot_out(r, c):
        return W.sum(fs.emb(W, f.data, f.offset, r, c) for f in out)

    for n, f in enumerate(out):
        e = exts[n]
        for x in range(f.data.shape[0]):
            for y in range(f.data.shape[1]):
                W.ob(f'out{n}[{x},{y}] = sum of inputs there', f.data[x, y], tot_in(e[0] + x, e[2] + y))
    for n, (d, o) in enumerate(zip(datas, offs)):
        e = fs.extent(tuple(d.shape), o)
        for x in range(d.shape[0]):
            for y in range(d.shape[1]):
                W.ob(f'in{n}[{x},{y}] accounted for', tot_out(e[0] + x, e[2] + y), tot_in(e[0] + x, e[2] + y))


# ------------------------------------------------------------------ extent helpers on symbolic integers
def cfg_ext(tier, seed):
    out = [{'what': w} for w in ('intersect', 'intersection', 'center', 'array_extent', 'boundary', 'merge_offset')]
    return out, len(out), True


def _sym_extent(W, name):
    rmin, cmin = W.int(name + 'rmin', -BIG, BIG), W.int(name + 'cmin', -BIG, BIG)
    nr, nc = W.int(name + 'nr', 1, BIG), W.int(name + 'nc', 1, BIG)
    return (rmin, rmin + nr - 1, cmin, cmin + nc - 1), (nr, nc)


def _and(W, *xs):
    if W.sym:
        acc = xs[0]
        for x in xs[1:]:
            acc = acc & x
        return acc
    return all(xs)


def run_ext(W, cfg):
    lt = W.lentil
    X = lt.extent
    what = cfg['what']
    a, (anr, anc) = _sym_extent(W, 'a')
    b, (bnr, bnc) = _sym_extent(W, 'b')
    r, c = W.int('r', -4 * BIG, 4 * BIG), W.int('c', -4 * BIG, 4 * BIG)
    in_a, in_b = fs.inside(W, a, r, c), fs.inside(W, b, r, c)
    if what == 'intersect':
        res = X.intersect(a, b)
        if res:
            # witness: the corner (max of mins) is a common pixel
            wr, wc = W.max(a[0], b[0]), W.max(a[2], b[2])
            W.ob_true('intersect => a common pixel exists', _and(W, fs.inside(W, a, wr, wc), fs.inside(W, b, wr, wc)))
        else:
            W.ob_true('not intersect => no pixel is common', ~(in_a & in_b) if W.sym else not (in_a and in_b))
    elif what == 'intersection':
        shp = X.intersection_shape(a, b)
        if shp == ():
            W.ob_true('empty shape => no common pixel', ~(in_a & in_b) if W.sym else not (in_a and in_b))
            return
        W.ob_true('a non-empty intersection shape has positive sides', (shp[0] > 0) & (shp[1] > 0) if W.sym else (shp[0] > 0 and shp[1] > 0))
        e = X.intersection_extent(a, b)
        in_e = fs.inside(W, e, r, c)
        W.ob_true('intersection extent = common pixels', (in_e == (in_a & in_b)) if W.sym else (in_e == (in_a and in_b)))
        W.ob('intersection shape', [shp[0], shp[1]], [e[1] - e[0] + 1, e[3] - e[2] + 1])
        (ar, ac), (br, bc) = X.intersection_slices(a, b)
        W.ob('slices address the common pixels', [a[0] + ar.start, a[0] + ar.stop - 1, a[2] + ac.start, a[2] + ac.stop - 1,
                                                   b[0] + br.start, b[0] + br.stop - 1, b[2] + bc.start, b[2] + bc.stop - 1],
             [e[0], e[1], e[2], e[3], e[0], e[1], e[2], e[3]])
        sh = X.intersection_shift(a, b)
        W.ob('array_extent(shape, intersection_shift) = intersection extent', list(X.array_extent(shp, sh)), list(e))
    elif what == 'center':
        ctr = X.array_center(a)
        W.ob('array_extent(shape, array_center(extent)) = extent', list(X.array_extent((anr, anc), ctr)), list(a))
    elif what == 'array_extent':
        k = (W.int('kr', -BIG, BIG), W.int('kc', -BIG, BIG))
        e = X.array_extent((anr, anc), k)
        W.ob('extent', list(e), [-(anr // 2) + k[0], -(anr // 2) + k[0] + anr - 1, -(anc // 2) + k[1], -(anc // 2) + k[1] + anc - 1])
        pr, pc = W.int('pr', 1, BIG), W.int('pc', 1, BIG)
        e2 = X.array_extent((anr, anc), k, parent_shape=(pr, pc))
        W.ob('extent in parent', list(e2), [e[0] + pr // 2, e[1] + pr // 2, e[2] + pc // 2, e[3] + pc // 2])
        # the parent shape handed over as an array the caller keeps: asked twice, same answer, array unchanged
        ps = W.array([pr, pc])
        e3 = X.array_extent((anr, anc), k, parent_shape=ps)
        e4 = X.array_extent((anr, anc), k, parent_shape=ps)
        W.ob('extent in parent (shape as an array)', list(e3), list(e2))
        W.ob('extent in parent (same array, second call)', list(e4), list(e2))
        W.ob('the caller\'s parent shape array is untouched', [ps[0], ps[1]], [pr, pc])
    elif what in ('boundary', 'merge_offset'):
        class F:       # boundary() only reads .extent
            pass
        fa, fb = F(), F()
        fa.extent, fb.extent = a, b
        bd = lt.field.boundary([fa, fb])
        in_bd = fs.inside(W, bd, r, c)
        if what == 'boundary':
            W.ob_true('members inside the bounding box', (~(in_a | in_b) | in_bd) if W.sym else ((not (in_a or in_b)) or in_bd))
            W.ob('least box', list(bd), [W.min(a[0], b[0]), W.max(a[1], b[1]), W.min(a[2], b[2]), W.max(a[3], b[3])])
        else:
            off = lt.field._merge_offset([fa, fb])
            shp = (bd[1] - bd[0] + 1, bd[3] - bd[2] + 1)
            W.ob('array_extent(merged shape, _merge_offset) = bounding box', list(X.array_extent(shp, off)), list(bd))


HARNESSES = {
    'insert': {'configs': cfg_insert, 'run': run_insert, 'small': 6},
    'mul': {'configs': cfg_mul, 'run': run_mul, 'small': 6},
    'merge': {'configs': cfg_merge, 'run': run_merge, 'small': 6},
    'reduce': {'configs': cfg_reduce, 'run': run_reduce, 'small': 6},
    'extent_sets': {'configs': cfg_ext, 'run': run_ext, 'small': 6},
}

"""C10 - calls are pure: no hidden mutation of inputs and no dependence on call history."""
import itertools, warnings
from fractions import Fraction
import numpy as rnp

EXPLANATION = ('C10: a table of public entry points is called on caller-owned symbolic arrays and objects; because symbolic arrays are real numpy '
               'object arrays, numpy\'s aliasing (asarray returns the caller\'s array, views write through) is the real thing. Every caller-owned element and '
               'attribute must denote the same term afterwards (the solver supplies the input that makes a write visible, e.g. a mask value not in {0, 1}); '
               'documented in-place APIs may change only their documented target. Histories: repeated calls, interleaved calls, plane reuse, repeated tilt fitting.')
BOUNDS = {'quick': '40 entry points on arrays <= 3x3 / spectra of length 3; histories of 2..3 calls', 'thorough': 'same table (the table is the bound)'}
ASSUMPTIONS = ['cosmic_rays and sequences longer than 3 calls are outside', 'seeded functions\' isolation from the global generator is discharged in C18\'s harness (same obligation)']
STUBS = []


def _snap(W, objs):
    """copies of caller-owned arrays (element terms) for comparison afterwards"""
    return {k: (v.copy() if hasattr(v, 'copy') else v) for k, v in objs.items()}


def _same(W, name, objs, snap):
    for k, v in objs.items():
        W.ob(f'{name}: caller\'s {k} unchanged', v, snap[k])


def _entries():
    E = {}

    def reg(name):
        def d(f):
            E[name] = f
            return f
        return d

    # each entry: f(W, lt) -> (owned: dict name->array, thunk)
    @reg('Plane(mask=)')
    def _(W, lt):
        m = W.reals('m', (2, 2), nz=True)
        a, o = W.reals('a', (2, 2)), W.reals('o', (2, 2))
        return {'mask': m, 'amplitude': a, 'opd': o}, lambda: lt.Plane(amplitude=a, opd=o, mask=m)

    @reg('Pupil(mask=3d)')
    def _(W, lt):
        m = W.array([[[W.real('m0', nz=True), 0], [0, 0]], [[0, W.real('m1', nz=True)], [0, 0]]])
        a = W.reals('a', (2, 2))
        return {'mask': m, 'amplitude': a}, lambda: lt.Pupil(amplitude=a, mask=m, focal_length=1.0, pixelscale=1.0)

    @reg('Pupil(mask=one-layer cube)')
    def _(W, lt):
        m = W.array([[[W.real('m0', nz=True), W.real('m1', nz=True)], [0, W.real('m2', nz=True)]]])
        a = W.reals('a', (2, 2))
        return {'mask': m, 'amplitude': a}, lambda: lt.Pupil(amplitude=a, mask=m, focal_length=1.0, pixelscale=1.0)

    @reg('Pupil(mask=[2-D mask])')
    def _(W, lt):
        m = W.array([[W.real('m0', nz=True), 0], [W.real('m1', nz=True), W.real('m2', nz=True)]])
        a = W.reals('a', (2, 2))
        return {'mask': m, 'amplitude': a}, lambda: lt.Pupil(amplitude=a, mask=[m], focal_length=1.0, pixelscale=1.0)

    @reg('Image(amplitude=)')
    def _(W, lt):
        a = W.reals('a', (2, 2), nz=True)
        return {'amplitude': a}, lambda: lt.Image(amplitude=a)

    @reg('plane.multiply')
    def _(W, lt):
        a, o = W.reals('a', (2, 2), nz=True), W.reals('o', (2, 2))
        p = lt.Pupil(amplitude=a, opd=o, focal_length=W.real('f', pos=True), pixelscale=W.real('dx', pos=True))
        w = lt.Wavefront(W.real('lam', pos=True))
        d0 = w.data[0].data
        return {'amplitude': a, 'opd': o, 'plane.mask': p.mask, 'wavefront field': d0}, lambda: w * p

    @reg('propagate_dft')
    def _(W, lt):
        a, o = W.reals('a', (2, 2), nz=True), W.reals('o', (2, 2))
        p = lt.Pupil(amplitude=a, opd=o, focal_length=W.real('f', pos=True), pixelscale=W.real('dx', pos=True))
        w = lt.Wavefront(W.real('lam', pos=True)) * p
        owned = {f'field{k}': f.data for k, f in enumerate(w.data)}
        owned.update({'amplitude': a, 'opd': o})
        return owned, lambda: lt.propagate_dft(w, pixelscale=W.real('du', pos=True), shape=(2, 2), oversample=1).field

    @reg('propagate_dft(shape=, prop_shape= as arrays)')
    def _(W, lt):
        # the geometry arguments handed over as integer arrays the caller keeps (np.array([r, c])), with oversampling
        a = W.reals('a', (2, 2), nz=True)
        p = lt.Pupil(amplitude=a, focal_length=W.real('f', pos=True), pixelscale=W.real('dx', pos=True))
        w = lt.Wavefront(W.real('lam', pos=True)) * p
        shp, prop, ps = rnp.array([3, 3]), rnp.array([2, 2]), rnp.array([1.0, 1.0])
        du = W.real('du', pos=True)
        return {'shape': shp, 'prop_shape': prop, 'amplitude': a}, lambda: lt.propagate_dft(w, pixelscale=du, shape=shp, prop_shape=prop, oversample=2).field

    @reg('propagate_fft(scratch)')
    def _(W, lt):
        a = W.reals('a', (2, 2), nz=True)
        lam, f, dx = W.real('lam', pos=True), W.real('f', pos=True), W.real('dx', pos=True)
        p = lt.Pupil(amplitude=a, focal_length=f, pixelscale=dx)
        w = lt.Wavefront(lam) * p
        du = lam * f / (2 * dx)
        owned = {f'field{k}': fl.data for k, fl in enumerate(w.data)}
        owned['amplitude'] = a
        scratch = W.complexes('scr', (3, 3))
        return owned, lambda: lt.propagate_fft(w, pixelscale=du, oversample=1, scratch=scratch).field

    @reg('fit_tilt(inplace=False)')
    def _(W, lt):
        o = W.reals('o', (3, 3))
        p = lt.Pupil(amplitude=rnp.ones((3, 3)), opd=o, pixelscale=1.0, focal_length=1.0)
        return {'opd': o, 'plane.opd': p.opd}, lambda: p.fit_tilt(inplace=False)

    @reg('Wavefront.field/intensity')
    def _(W, lt):
        w = lt.Wavefront.empty(wavelength=W.real('lam', pos=True), shape=(2, 2))
        d1, d2 = W.complexes('z1', (2, 2)), W.complexes('z2', (1, 2))
        w.data.append(lt.field.Field(data=d1, offset=[0, 0]))
        w.data.append(lt.field.Field(data=d2, offset=[1, 0]))
        return {'field1': d1, 'field2': d2}, lambda: (w.field, w.intensity)

    @reg('Wavefront.field/intensity (second field inside the first)')
    def _(W, lt):
        w = lt.Wavefront.empty(wavelength=W.real('lam', pos=True), shape=(2, 3))
        d1, d2, d3 = W.complexes('z1', (2, 3)), W.complexes('z2', (1, 2)), W.complexes('z3', (1, 1))
        w.data.append(lt.field.Field(data=d1, offset=[0, 0]))
        w.data.append(lt.field.Field(data=d2, offset=[0, 0]))
        w.data.append(lt.field.Field(data=d3, offset=[-1, 1]))
        return {'field1': d1, 'field2': d2, 'field3': d3, 'field1 as held by the wavefront': w.data[0].data}, lambda: (w.intensity, w.field, w.intensity)

    @reg('field.merge / reduce')
    def _(W, lt):
        d1, d2 = W.complexes('z1', (2, 2)), W.complexes('z2', (2, 1))
        a, b = lt.field.Field(data=d1, offset=[0, 0]), lt.field.Field(data=d2, offset=[0, 0])
        return {'a': d1, 'b': d2, 'a.data': a.data, 'b.data': b.data}, lambda: (lt.field.merge(a, b).data, [f.data for f in lt.field.reduce([a, b])])

    @reg('Wavefront.insert(out)')
    def _(W, lt):
        w = lt.Wavefront.empty(wavelength=W.real('lam', pos=True), shape=(2, 2))
        d1 = W.complexes('z1', (2, 2))
        w.data.append(lt.field.Field(data=d1, offset=[0, 0]))
        out = W.reals('out', (2, 2))
        return {'field1': d1}, lambda: w.insert(out, weight=W.real('wt'))

    @reg('dft2')
    def _(W, lt):
        f = W.complexes('f', (2, 3))
        return {'f': f}, lambda: lt.fourier.dft2(f, (W.real('ar'), W.real('ac')), shape=(2, 2))

    @reg('dft2(out=)')
    def _(W, lt):
        f = W.complexes('f', (2, 2))
        out = W.complexes('buf', (2, 2))
        return {'f': f}, lambda: lt.fourier.dft2(f, W.real('a'), out=out)

    @reg('idft2')
    def _(W, lt):
        F = W.complexes('F', (2, 2))
        return {'F': F}, lambda: lt.fourier.idft2(F, (W.const(Fraction(1, 2)), W.const(Fraction(1, 2))))

    @reg('adc')
    def _(W, lt):
        e = W.reals('e', (1, 2))
        return {'frame': e}, lambda: lt.detector.adc(e, W.real('g'), saturation_capacity=W.real('sat', pos=True))

    @reg('collect_charge')
    def _(W, lt):
        img = W.array([[[W.real(f'p_{w}_{i}_{j}') for j in range(2)] for i in range(2)] for w in range(2)])
        q = W.array([W.real('q0'), W.real('q1')])
        return {'cube': img, 'qe': q}, lambda: lt.detector.collect_charge(img, [500, 600], q)

    @reg('collect_charge_bayer')
    def _(W, lt):
        img = W.array([[[W.real(f'p_{w}_{i}_{j}') for j in range(2)] for i in range(2)] for w in range(1)])
        q = {c: W.array([W.real('q' + c)]) for c in 'RGB'}
        return {'cube': img, 'qR': q['R'], 'qG': q['G'], 'qB': q['B']}, lambda: lt.detector.collect_charge_bayer(img, [500], q['R'], q['G'], q['B'], 'RGGB')

    @reg('shot_noise')
    def _(W, lt):
        img = W.reals('img', (1, 2), nonneg=True, hi=100)
        seed = W.int('seed', 0, 99)
        return {'frame': img}, lambda: lt.detector.shot_noise(img, seed=seed)

    @reg('read_noise')
    def _(W, lt):
        img = W.reals('img', (1, 2))
        seed, el = W.int('seed', 0, 99), W.real('el', pos=True)
        return {'frame': img}, lambda: lt.detector.read_noise(img, el, seed=seed)

    @reg('dark_current (pattern noise)')
    def _(W, lt):
        rate = W.reals('rate', (1, 2), nonneg=True, hi=100)
        seed, fpn = W.int('seed', 0, 99), W.real('fpn', pos=True, hi=1)
        return {'rate': rate}, lambda: lt.detector.dark_current(rate, shape=(1, 2), fpn_factor=fpn, seed=seed)

    @reg('rule07_dark_current (pattern noise)')
    def _(W, lt):
        seed, fpn, T = W.int('seed', 0, 99), W.real('fpn', pos=True, hi=1), W.real('T', lo=100, hi=300)
        return {}, lambda: lt.detector.rule07_dark_current(T, 5e-6, 5e-6, shape=(1, 2), fpn_factor=fpn, seed=seed)

    @reg('detector.pixel')
    def _(W, lt):
        img = W.reals('img', (2, 2), nonneg=True)
        return {'image': img}, lambda: lt.detector.pixel(img, 2)

    @reg('detector.pixel (complex frame)')
    def _(W, lt):
        img = W.complexes('img', (2, 2))
        return {'image': img}, lambda: lt.detector.pixel(img, 2)

    @reg('jitter')
    def _(W, lt):
        img = W.reals('img', (2, 2), nonneg=True)
        W.assume(img[0, 0] > 0)
        return {'image': img}, lambda: lt.jitter(img, W.real('s', nonneg=True))

    @reg('smear')
    def _(W, lt):
        img = W.reals('img', (2, 2), nonneg=True)
        W.assume(img[0, 0] > 0)
        return {'image': img}, lambda: lt.smear(img, W.real('s', nonneg=True), angle=90)

    @reg('zernike_fit/remove')
    def _(W, lt):
        W.float_constants()
        mask = rnp.ones((3, 3))
        o = W.reals('o', (3, 3))
        return {'opd': o}, lambda: (lt.zernike_fit(o, mask, [1, 2, 3]), lt.zernike_remove(o, mask, [1, 2, 3]))

    @reg('zernike_compose')
    def _(W, lt):
        W.float_constants()
        c = W.reals('c', (3,))
        return {'coeffs': c}, lambda: lt.zernike_compose(rnp.ones((3, 3)), c)

    @reg('util.pad')
    def _(W, lt):
        a = W.reals('a', (2, 3))
        return {'array': a}, lambda: (lt.pad(a, (3, 3)), lt.pad(a, (1, 2)))

    @reg('util.rebin')
    def _(W, lt):
        a = W.reals('a', (2, 4))
        return {'array': a}, lambda: lt.rebin(a, 2)

    @reg('util.normalize_power')
    def _(W, lt):
        a = W.reals('a', (2, 2))
        W.assume(a[0, 0] > 0)
        return {'array': a}, lambda: lt.normalize_power(a, W.real('p', pos=True))

    @reg('util.boundary/centroid')
    def _(W, lt):
        a = W.reals('a', (2, 2), pos=True)
        return {'array': a}, lambda: (lt.boundary(a), lt.centroid(a))

    @reg('util.rescale')
    def _(W, lt):
        W.float_constants()
        a = W.reals('a', (2, 2), nz=True)
        return {'array': a}, lambda: lt.rescale(a, 2, unitary=False)

    @reg('plane.rescale')
    def _(W, lt):
        W.float_constants()
        a, o = W.reals('a', (2, 2), nz=True), W.reals('o', (2, 2), nz=True)
        p = lt.Pupil(amplitude=a, opd=o, pixelscale=1.0, focal_length=1.0)
        return {'amplitude': a, 'opd': o, 'plane.mask': p.mask}, lambda: p.rescale(2)

    def spec(W, R, unit='um'):
        g = [W.const(Fraction(x, 1000)) for x in (500, 510, 520)] if unit == 'um' else [W.const(Fraction(x)) for x in (500, 510, 520)]
        wv, vv = W.array(g), W.array([W.real('v0'), W.real('v1'), W.real('v2')])
        return R.Spectrum(wv, vv, waveunit=unit), wv, vv

    @reg('Spectrum + Spectrum (um)')
    def _(W, lt):
        R = W.mod('radiometry')
        s, wv, vv = spec(W, R)
        t = R.Spectrum(W.array([W.const(Fraction(x, 1000)) for x in (505, 515)]), W.array([W.real('u0'), W.real('u1')]), waveunit='um')
        return {'a.wave': s.wave, 'a.value': s.value, 'b.wave': t.wave, 'b.value': t.value}, lambda: (s + t, s * t)

    @reg('Spectrum.sample (um)')
    def _(W, lt):
        R = W.mod('radiometry')
        s, wv, vv = spec(W, R)
        return {'wave': s.wave, 'value': s.value}, lambda: s.sample([505.0, 512.0], waveunit='nm')

    @reg('Spectrum.bin (um)')
    def _(W, lt):
        R = W.mod('radiometry')
        s, wv, vv = spec(W, R)
        return {'wave': s.wave, 'value': s.value}, lambda: s.bin([505.0, 515.0], interp_method='trapz', preserve_power=False, waveunit='nm')

    @reg('Spectrum.integrate/ends/asarray')
    def _(W, lt):
        R = W.mod('radiometry')
        s, wv, vv = spec(W, R, 'nm')
        W.assume(vv[1] > 0)
        return {'wave': s.wave, 'value': s.value}, lambda: (s.integrate(method='trapz'), s.asarray())

    @reg('Spectrum scalar ops')
    def _(W, lt):
        R = W.mod('radiometry')
        s, wv, vv = spec(W, R, 'nm')
        return {'wave': s.wave, 'value': s.value}, lambda: (s * W.real('k'), s + 1, s - W.real('k'), s ** 2)

    return E


def cfg_mut(tier, seed):
    out = [{'entry': k} for k in _entries_names()]
    return out, len(out), True


def _entries_names():
    class _Dummy:
        pass
    return list(_entries().keys())


def run_mut(W, cfg):
    lt = W.lentil
    owned, thunk = _entries()[cfg['entry']](W, lt)
    snap = _snap(W, owned)
    with warnings.catch_warnings():
        warnings.simplefilter('ignore')
        thunk()
    _same(W, cfg['entry'], owned, snap)
    # a second call sees the same inputs and must give the same answer
    if not cfg['entry'].startswith(('Wavefront.insert', 'dft2(out')):
        with warnings.catch_warnings():
            warnings.simplefilter('ignore')
            r2 = thunk()
        _same(W, cfg['entry'] + ' (2nd call)', owned, snap)
        if cfg['entry'] in ('shot_noise', 'read_noise', 'dark_current (pattern noise)', 'rule07_dark_current (pattern noise)'):
            with warnings.catch_warnings():
                warnings.simplefilter('ignore')
                r3 = thunk()
            W.ob(cfg['entry'] + ': a seeded call repeated gives the same draw (no hidden generator state)', r3, r2)
            W.ob_true(cfg['entry'] + ': the global generator is not used', len(W.rng_events()) == 0)


# ------------------------------------------------------------------ documented in-place APIs change only their target
def cfg_inplace(tier, seed):
    out = [{'api': a} for a in ('fit_tilt(inplace=True)', 'Wavefront.insert', 'field.insert', 'dft2(out=)', 'scratch', 'Spectrum.crop', 'Spectrum.to')]
    return out, len(out), True


def run_inplace(W, cfg):
    lt = W.lentil
    api = cfg['api']
    if api == 'fit_tilt(inplace=True)':
        o, a = W.reals('o', (3, 3)), W.reals('a', (3, 3))
        p = lt.Pupil(amplitude=a, opd=o.copy(), mask=rnp.ones((3, 3), dtype=int), pixelscale=1.0, focal_length=1.0)
        m0, a0 = p.mask.copy(), a.copy()
        p.fit_tilt(inplace=True)
        W.ob('amplitude untouched', p.amplitude, a0)
        W.ob_true('mask untouched', bool((W.concrete(p.mask) == W.concrete(m0)).all()))
        W.ob_true('one tilt recorded', len(p.tilt) == 1)
    elif api in ('Wavefront.insert', 'field.insert'):
        d = W.complexes('z', (2, 2))
        d0 = d.copy()
        out = W.reals('out', (3, 3)) if api == 'Wavefront.insert' else W.complexes('out', (3, 3))
        if api == 'Wavefront.insert':
            w = lt.Wavefront.empty(wavelength=1.0, shape=(3, 3))
            w.data.append(lt.field.Field(data=d, offset=[0, 1]))
            r = w.insert(out)
        else:
            r = lt.field.insert(lt.field.Field(data=d, offset=[0, 1]), out)
        W.ob_true('returns out', W.same(r, out))
        W.ob('field data untouched', d, d0)
        if api == 'field.insert':
            # a weighted complex insert, twice into fresh arrays: the field keeps its data and both inserts give the same result
            wt = W.real('weight', nz=True)
            o1 = lt.field.insert(lt.field.Field(data=d, offset=[0, 1]), W.complexes('o1', (3, 3)) * 0, intensity=False, weight=wt)
            W.ob('weighted complex insert: field data untouched', d, d0)
            fld = lt.field.Field(data=d, offset=[-1, 0])
            o2 = lt.field.insert(fld, W.complexes('o2', (3, 3)) * 0, intensity=False, weight=wt)
            o3 = lt.field.insert(fld, W.complexes('o3', (3, 3)) * 0, intensity=False, weight=wt)
            W.ob('weighted complex insert: the same Field inserted twice gives the same result', o3, o2)
            W.ob('weighted complex insert: field data untouched after two inserts', d, d0)
            o4 = lt.field.insert(fld, W.reals('o4', (3, 3)) * 0, intensity=True, weight=wt)
            W.ob('weighted intensity insert: field data untouched', d, d0)
    elif api == 'dft2(out=)':
        f, buf = W.complexes('f', (2, 2)), W.complexes('buf', (2, 2))
        f0 = f.copy()
        r = lt.fourier.dft2(f, W.real('a'), out=buf)
        W.ob_true('returns out', W.same(r, buf))
        W.ob('input untouched', f, f0)
    elif api == 'scratch':
        a = W.reals('a', (2, 2), nz=True)
        a0 = a.copy()
        lam, fl, dx = W.real('lam', pos=True), W.real('f', pos=True), W.real('dx', pos=True)
        w = lt.Wavefront(lam) * lt.Pupil(amplitude=a, focal_length=fl, pixelscale=dx)
        fields = [x.data.copy() for x in w.data]
        lt.propagate_fft(w, pixelscale=lam * fl / (2 * dx), oversample=1, scratch=W.complexes('s', (2, 2)))
        W.ob('amplitude untouched', a, a0)
        for k, x in enumerate(w.data):
            W.ob(f'wavefront field {k} untouched', x.data, fields[k])
    else:
        R = W.mod('radiometry')
        wv = W.array([W.const(Fraction(x)) for x in (500, 510, 520)])
        vv = W.array([W.real('v0'), W.real('v1'), W.real('v2')])
        wv0, vv0 = wv.copy(), vv.copy()
        s = R.Spectrum(wv, vv)
        if api == 'Spectrum.crop':
            s.crop(505, 525)
            W.ob('the arrays handed to the constructor are not written to', [wv, vv], [wv0, vv0])
            W.ob_true('cropped', len(s.wave) == 2)
        else:
            s.to('um')
            W.ob('the arrays handed to the constructor are not written to', [wv, vv], [wv0, vv0])


# ------------------------------------------------------------------ histories
def cfg_hist(tier, seed):
    out = [{'case': c} for c in ('plane-reuse', 'interleaved-dft2', 'fit-tilt-twice', 'fit-tilt-twice-segmented', 'spectrum-reuse', 'spectra-sharing-arrays', 'spectrum-edit-sample', 'operand-attributes', 'multiply-rescale-multiply', 'fit-tilt-copy-segmented', 'fit-tilt-copy-degenerate', 'views-keep-fields', 'wavefront-fanout', 'offset-dft2-twice', 'scratch-reuse', 'process-settings')]
    return out, len(out), True


def run_hist(W, cfg):
    lt = W.lentil
    case = cfg['case']
    if case == 'plane-reuse':
        a, o = W.reals('a', (2, 2), nz=True), W.reals('o', (2, 2))
        f, dx, du = W.real('f', pos=True), W.real('dx', pos=True), W.real('du', pos=True)
        p = lt.Pupil(amplitude=a, opd=o, focal_length=f, pixelscale=dx)
        l1, l2 = W.real('l1', pos=True), W.real('l2', pos=True)
        r1 = lt.propagate_dft(lt.Wavefront(l1) * p, pixelscale=du, shape=(2, 2), oversample=1).field
        r2 = lt.propagate_dft(lt.Wavefront(l2) * p, pixelscale=du, shape=(2, 2), oversample=1).field
        r1b = lt.propagate_dft(lt.Wavefront(l1) * p, pixelscale=du, shape=(2, 2), oversample=1).field
        fresh = lt.Pupil(amplitude=a.copy(), opd=o.copy(), focal_length=f, pixelscale=dx)
        r2f = lt.propagate_dft(lt.Wavefront(l2) * fresh, pixelscale=du, shape=(2, 2), oversample=1).field
        W.ob('repeating a call gives the same field', r1b, r1)
        W.ob('a reused plane behaves like a fresh one', r2, r2f)
    elif case == 'wavefront-fanout':
        # one tilted wavefront handed to two different Tilt planes: the second product must not see the first one's tilt
        a = W.reals('a', (2, 2), nz=True)
        z, du, lam = W.real('z', pos=True), W.real('du', pos=True), W.real('lam', pos=True)
        t0, tA, tB = (W.real('x0'), W.real('y0')), (W.real('xa'), W.real('ya')), (W.real('xb'), W.real('yb'))
        w0 = lt.Wavefront(lam, tilt=[t0[0], t0[1]]) * lt.Pupil(amplitude=a, mask=rnp.ones((2, 2), dtype=int), focal_length=z, pixelscale=1.0)
        n0 = [len(f.tilt) for f in w0.data]
        wa = w0 * lt.Tilt(x=tA[0], y=tA[1])
        wb = w0 * lt.Tilt(x=tB[0], y=tB[1])
        W.ob_true('the shared wavefront keeps its own tilt list', [len(f.tilt) for f in w0.data] == n0)
        sb = wb.data[0].shift(z=z, wavelength=lam, pixelscale=(du, du), oversample=1)
        W.ob('second product carries its own tilt only', [sb[0], sb[1]], [z * (t0[0] + tB[0]) / du, -z * (t0[1] + tB[1]) / du])
        sa = wa.data[0].shift(z=z, wavelength=lam, pixelscale=(du, du), oversample=1)
        W.ob('first product unaffected by the second', [sa[0], sa[1]], [z * (t0[0] + tA[0]) / du, -z * (t0[1] + tA[1]) / du])
    elif case == 'scratch-reuse':
        # a caller-owned scratch buffer reused for a second propagation (non-square FFT grid, wider than tall): the answer must not
        # depend on what the first call left in it
        a = W.reals('a', (2, 3), nz=True)
        lam, fl, dx = W.real('lam', pos=True), W.real('f', pos=True), W.real('dx', pos=True)
        w = lt.Wavefront(lam) * lt.Pupil(amplitude=a, mask=rnp.ones((2, 3), dtype=int), focal_length=fl, pixelscale=dx)
        du = (lam * fl / (2 * dx), lam * fl / (4 * dx))            # FFT grid 2 x 4
        ref = lt.propagate_fft(w, pixelscale=du, oversample=1).field
        scr = W.complexes('scr', (2, 4))
        first = lt.propagate_fft(w, pixelscale=du, oversample=1, scratch=scr).field
        w2 = lt.Wavefront(lam) * lt.Pupil(amplitude=a[:, :1], mask=rnp.ones((2, 1), dtype=int), focal_length=fl, pixelscale=dx)
        ref2 = lt.propagate_fft(w2, pixelscale=du, oversample=1).field
        second = lt.propagate_fft(w2, pixelscale=du, oversample=1, scratch=scr).field
        W.ob('first use of the scratch buffer', first, ref)
        W.ob('second use of the same buffer for a narrower pupil', second, ref2)
    elif case == 'offset-dft2-twice':
        f1 = W.complexes('f', (2, 3))
        a1, k = W.real('a1'), W.int('k', -3, 3)
        x = lt.fourier.dft2(f1, a1, shape=(2, 2), offset=(k, 1))
        y = lt.fourier.dft2(f1, a1, shape=(2, 2), offset=(k, 1))
        zc = lt.fourier.dft2(f1, a1, shape=(2, 2))
        lt.fourier.dft2(f1, a1, shape=(2, 2), offset=(2, k))
        zc2 = lt.fourier.dft2(f1, a1, shape=(2, 2))
        W.ob('an offset transform repeated gives the same values', y, x)
        W.ob('a centred transform is the same before and after an offset one', zc2, zc)
    elif case == 'interleaved-dft2':
        f1, f2 = W.complexes('f', (2, 2)), W.complexes('g', (2, 2))
        a1, a2 = W.real('a1'), W.real('a2')
        x = lt.fourier.dft2(f1, a1, shift=(W.real('s'), 0))
        lt.fourier.dft2(f2, a2, shift=(0, W.real('t')), offset=(W.int('k', -3, 3), 0))
        y = lt.fourier.dft2(f1, a1, shift=(W.real('s'), 0))
        W.ob('an unrelated call in between (same shapes, shared coordinate cache) changes nothing', y, x)
    elif case in ('fit-tilt-twice', 'fit-tilt-twice-segmented'):
        # concrete OPDs (tilts are then concrete numbers), symbolic optics: the field of the wavefront must carry every fitted tilt
        W.float_constants()
        shp = (3, 4)
        rr, cc = rnp.mgrid[0:3, 0:4]
        O0 = 1e-7 * (2.0 * rr - 1.0 * cc + 0.3 * rr * cc)
        D = 1e-7 * (-0.5 * rr + 1.5 * cc)
        if case.endswith('segmented'):
            mask = rnp.zeros((2,) + shp, dtype=int)
            mask[0, :, :2] = 1
            mask[1, :, 2:] = 1
        else:
            mask = rnp.ones(shp, dtype=int)
        z, du, lam = W.real('z', pos=True), W.real('du', pos=True), W.real('lam', pos=True)
        p = lt.Pupil(amplitude=rnp.ones(shp), opd=O0.copy(), mask=mask.copy(), pixelscale=1e-3, focal_length=z)
        p.fit_tilt(inplace=True)
        p.opd = p.opd + D * (mask.sum(axis=0) if mask.ndim == 3 else mask)
        p.fit_tilt(inplace=True)
        fresh = lt.Pupil(amplitude=rnp.ones(shp), opd=(O0 + D).copy(), mask=mask.copy(), pixelscale=1e-3, focal_length=z)
        fresh.fit_tilt(inplace=True)
        w1 = lt.Wavefront(lam) * p
        w2 = lt.Wavefront(lam) * fresh
        W.ob_true('same number of fields', len(w1.data) == len(w2.data))
        for k, (fa, fb) in enumerate(zip(w1.data, w2.data)):
            sa = fa.shift(z=z, wavelength=lam, pixelscale=(du, du), oversample=1)
            sb = fb.shift(z=z, wavelength=lam, pixelscale=(du, du), oversample=1)
            # shift = z * angle / du with concrete angles: compare the angle factors with a tolerance for the float least squares
            W.ob_close(f'segment {k}: same total tilt by either route (rows)', sa[0] * du / z * 1e6, sb[0] * du / z * 1e6, 1e-6)
            W.ob_close(f'segment {k}: same total tilt by either route (cols)', sa[1] * du / z * 1e6, sb[1] * du / z * 1e6, 1e-6)
    elif case == 'multiply-rescale-multiply':
        # a plane used at some wavelength, then rescaled: the rescaled plane behaves like one rescaled from a fresh plane
        W.float_constants()
        lam = W.real('lam', pos=True)
        m = rnp.zeros((3, 4), dtype=int)
        m[0:2, 1:3] = 1
        for form in ('scalar', 'array'):
            kw = {'amplitude': W.real('a', nz=True), 'opd': W.real('o')} if form == 'scalar' else {'amplitude': W.reals('A', (3, 4), nz=True), 'opd': W.reals('O', (3, 4))}
            p = lt.Pupil(mask=m.copy(), pixelscale=1.0, focal_length=1.0, **kw)
            first = (lt.Wavefront(lam) * p).field
            q = p.rescale(2)
            fresh = lt.Pupil(mask=m.copy(), pixelscale=1.0, focal_length=1.0, **kw).rescale(2)
            W.ob(f'{form} attributes: product with the rescaled plane = product with a plane rescaled before any use', (lt.Wavefront(lam) * q).field, (lt.Wavefront(lam) * fresh).field)
            W.ob(f'{form} attributes: the original plane still gives its first product', (lt.Wavefront(lam) * p).field, first)
    elif case == 'fit-tilt-copy-segmented':
        # fit_tilt(inplace=False) on a segmented plane: the caller's plane keeps its OPD and gains no Tilt; the copy carries one per segment
        O = W.reals('o', (2, 4), lo=-1, hi=1)
        O0 = O.copy()
        mask = rnp.zeros((2, 2, 4), dtype=int)
        mask[0, :, :2] = 1
        mask[1, :, 2:] = 1
        p = lt.Pupil(amplitude=rnp.ones((2, 4)), opd=O, mask=mask.copy(), pixelscale=1.0, focal_length=1.0)
        for k in range(2):
            q = p.fit_tilt(inplace=False)
            W.ob_true(f'call {k}: the caller\'s plane gains no Tilt', len(p.tilt) == 0)
            W.ob_true(f'call {k}: the copy carries one Tilt per segment', len(q.tilt) == 2)
            W.ob(f'call {k}: the caller\'s OPD is untouched', p.opd, O0)
            W.ob_true(f'call {k}: a copy is returned', not W.same(q, p))
    elif case == 'fit-tilt-copy-degenerate':
        # nothing to fit (scalar OPD, or no pixel scale): fit_tilt() still hands back a plane of its own, not the caller's
        a = W.reals('a', (2, 2), nz=True)
        for nm_, p in (('scalar OPD', lt.Pupil(amplitude=a, pixelscale=1.0, focal_length=1.0)), ('scalar amplitude and OPD', lt.Pupil(pixelscale=1.0, focal_length=1.0))):
            q = p.fit_tilt()
            W.ob_true(f'{nm_}: fit_tilt() returns a copy', not W.same(q, p))
            q.opd = W.reals('o', (2, 2))
            q.tilt.append(lt.Tilt(x=0, y=0))
            W.ob_true(f'{nm_}: editing the returned plane leaves the caller\'s plane alone', len(p.tilt) == 0 and getattr(p.opd, 'shape', ()) == ())
            W.ob_true(f'{nm_}: fit_tilt(inplace=True) returns the plane itself', W.same(p.fit_tilt(inplace=True), p))
    elif case == 'views-keep-fields':
        # reading a wavefront's views (intensity, field, insert) leaves its list of fields, and their tilts, as they were
        w = lt.Wavefront.empty(wavelength=W.real('lam', pos=True), shape=(2, 3))
        t1, t2 = lt.Tilt(x=W.real('x1'), y=W.real('y1')), lt.Tilt(x=W.real('x2'), y=W.real('y2'))
        f1 = lt.field.Field(data=W.complexes('z1', (2, 2)), offset=[0, 0], tilt=[t1])
        f2 = lt.field.Field(data=W.complexes('z2', (2, 2)), offset=[0, 1], tilt=[t2])
        f3 = lt.field.Field(data=W.complexes('z3', (1, 1)), offset=[-1, -1], tilt=[t1, t2])
        w.data.extend([f1, f2, f3])
        first = w.intensity
        for what in ('intensity', 'field', 'insert'):
            if what == 'insert':
                w.insert(W.reals('out', (2, 3)), weight=W.real('wt'))
            else:
                getattr(w, what)
            W.ob_true(f'after reading {what}: the same field objects in the same order', len(w.data) == 3 and w.data[0] is f1 and w.data[1] is f2 and w.data[2] is f3)
            W.ob_true(f'after reading {what}: every field keeps its tilt list', f1.tilt == [t1] and f2.tilt == [t2] and f3.tilt == [t1, t2])
        W.ob('intensity read again = intensity read first', w.intensity, first)
    elif case == 'operand-attributes':
        # the scalar attributes of both operands survive a product and a propagation, and a shared wavefront multiplies the
        # next plane as it would have before
        a = W.reals('a', (2, 2), nz=True)
        lam, f0, f1, dx, du = W.real('lam', pos=True), W.real('f0', pos=True), W.real('f1', pos=True), W.real('dx', pos=True), W.real('du', pos=True)
        w0 = lt.Wavefront(lam, pixelscale=dx, focal_length=f0)
        attrs = ('wavelength', 'focal_length', 'pixelscale', 'ptype', 'shape')

        def snap(o, names):
            return {k: getattr(o, k) for k in names if hasattr(o, k)}

        def unchanged(tag, o, before):
            for k, v in before.items():
                now = getattr(o, k)
                same = now is v or (isinstance(v, (tuple, list)) and isinstance(now, (tuple, list)) and len(v) == len(now) and all(x is y or ((not W.sym) and x == y) for x, y in zip(now, v))) \
                    or ((not W.sym) and type(now) is type(v) and now == v)
                W.ob_true(f'{tag}: {k} unchanged', bool(same))
        plain = lt.Plane(amplitude=W.reals('b', (2, 2), nz=True), pixelscale=dx)
        before_field = (w0 * plain).field
        b0 = snap(w0, attrs)
        pup = lt.Pupil(amplitude=a, focal_length=f1, pixelscale=dx)
        pb = snap(pup, ('focal_length', 'pixelscale', 'ptype', 'shape'))
        w1 = w0 * pup
        unchanged('wavefront after w * Pupil', w0, b0)
        unchanged('Pupil after w * Pupil', pup, pb)
        W.ob_true('Pupil tilt list untouched', len(pup.tilt) == 0)
        b1 = snap(w1, attrs)
        img = lt.propagate_dft(w1, pixelscale=du, shape=(2, 2), oversample=1)
        unchanged('wavefront after propagate_dft', w1, b1)
        im = lt.Image(amplitude=W.reals('c', (2, 2), nz=True), pixelscale=du)
        bi = snap(img, attrs)
        img * im
        unchanged('image wavefront after w * Image', img, bi)
        W.ob('the shared wavefront multiplies the next plane as before', (w0 * plain).field, before_field)
        W.ob('focal length of the product with the plain plane is the wavefront\'s own', (w0 * plain).focal_length, f0)
    elif case == 'spectra-sharing-arrays':
        # two Spectrum objects built from the same caller arrays: editing one (unit conversions, crop, trim) leaves the other and the arrays alone
        R = W.mod('radiometry')
        wv = W.array([W.const(Fraction(g)) for g in (500, 510, 520)])
        vv = W.array([W.real('v0'), W.real('v1'), W.real('v2')])
        w0, v0 = wv.copy(), vv.copy()
        for edit in ('to-um', 'to-wlam', 'to-um-wlam', 'crop'):
            s1 = R.Spectrum(wv, vv, waveunit='nm', valueunit='photlam')
            s2 = R.Spectrum(wv, vv, waveunit='nm', valueunit='photlam')
            {'to-um': lambda: s1.to('um'), 'to-wlam': lambda: s1.to('wlam'), 'to-um-wlam': lambda: s1.to('um', 'wlam'), 'crop': lambda: s1.crop(505, 520)}[edit]()
            W.ob(f'{edit}: the caller\'s wavelength array untouched', wv, w0)
            W.ob(f'{edit}: the caller\'s value array untouched', vv, v0)
            W.ob(f'{edit}: the sibling Spectrum keeps its values', s2.value, v0)
            W.ob(f'{edit}: the sibling Spectrum keeps its wavelengths', s2.wave, w0)
    elif case == 'process-settings':
        # process-wide settings are hidden state too: numpy's floating-point error handling, print options, the warning filters and
        # the global random state are what they were after accepted AND refused calls (concrete-only: these are numpy's own globals)
        def ok():
            import numpy as real
            D = lt.detector
            state = lambda: (real.geterr(), real.get_printoptions(), list(warnings.filters), real.random.get_state()[1][:8].tolist(), real.random.get_state()[2])
            before = state()
            calls = [lambda: D.shot_noise(real.array([[4.0, 9.0]]), method='gaussian', seed=1),
                     lambda: D.shot_noise(real.array([[-1.0, 4.0]]), method='gaussian', seed=1),
                     lambda: D.shot_noise(real.array([[0.0, 4.0]]), method='gaussian', seed=1),
                     lambda: D.shot_noise(-10, method='gaussian', seed=3),
                     lambda: D.shot_noise(real.array([[-1.0, -4.0]]), method='gaussian', seed=3),
                     lambda: D.shot_noise(-10, method='poisson', seed=3),
                     lambda: D.shot_noise(0, method='gaussian', seed=3),
                     lambda: D.shot_noise(real.array([[-1.0, 4.0]]), method='poisson', seed=1),
                     lambda: D.shot_noise(real.array([[1e30, 4.0]]), method='poisson', seed=1),
                     lambda: D.shot_noise(real.array([[4.0, 9.0]]), method='poisson', seed=1),
                     lambda: D.read_noise(real.ones((1, 2)), -1.0, seed=1),
                     lambda: D.adc(real.ones((1, 2)), 0.0),
                     lambda: lt.jitter(real.zeros((2, 2)), 1.0),
                     lambda: lt.smear(real.zeros((2, 2)), 1.0, angle=30),     # without an angle smear draws one from the global generator, as documented
                     lambda: lt.normalize_power(real.zeros((2, 2))),
                     lambda: lt.radiometry.Spectrum([1, 2], [1.0, 0.0]) / lt.radiometry.Spectrum([1, 2], [0.0, 0.0])]
            for c in calls:
                with warnings.catch_warnings():
                    warnings.simplefilter('ignore')
                    try:
                        c()
                    except Exception:
                        pass
                if state() != before:
                    return False
            return True
        W.ob_concrete('accepted and refused calls leave numpy\'s error handling, print options, warning filters and global random state alone', ok)
    elif case == 'spectrum-edit-sample':
        # sample in another wavelength unit, edit the values (setter, flux-unit conversion, in-place arithmetic), sample again:
        # the answer is that of a fresh Spectrum in the same state
        R = W.mod('radiometry')
        grid = [500, 510, 520]
        v = [W.real('v0'), W.real('v1'), W.real('v2')]
        u = [W.real('u0'), W.real('u1'), W.real('u2')]
        q = [W.const(Fraction(x, 1000)) for x in (503, 515)]          # micrometres
        for route in ('value-setter', 'flux-unit'):
            s = R.Spectrum(W.array([W.const(Fraction(g)) for g in grid]), W.array(list(v)), waveunit='nm', valueunit='photlam')
            first = s.sample(W.array(list(q)), waveunit='um')
            if route == 'value-setter':
                s.value = W.array(list(u))
                fresh = R.Spectrum(W.array([W.const(Fraction(g)) for g in grid]), W.array(list(u)), waveunit='nm', valueunit='photlam')
            else:
                s.to('wlam')
                fresh = R.Spectrum(W.array([W.const(Fraction(g)) for g in grid]), W.array(list(v)), waveunit='nm', valueunit='photlam')
                fresh.to('wlam')
            W.ob(f'{route}: sampling an edited Spectrum = sampling a fresh one in the same state',
                 s.sample(W.array(list(q)), waveunit='um'), fresh.sample(W.array(list(q)), waveunit='um'))
            W.ob(f'{route}: and again in its own unit', s.sample(W.array([W.const(Fraction(503)), W.const(Fraction(515))]), waveunit='nm'),
                 fresh.sample(W.array([W.const(Fraction(503)), W.const(Fraction(515))]), waveunit='nm'))
    else:
        R = W.mod('radiometry')
        s = R.Spectrum(W.array([W.const(Fraction(x, 1000)) for x in (500, 510, 520)]), W.array([W.real('v0'), W.real('v1'), W.real('v2')]), waveunit='um')
        t = R.Spectrum(W.array([W.const(Fraction(x, 1000)) for x in (500, 510, 520)]), W.array([W.real('u0'), W.real('u1'), W.real('u2')]), waveunit='um')
        r1 = (s * t).value
        (s + t)
        r2 = (s * t).value
        W.ob('operands reused after other operations give the same product', r2, r1)


HARNESSES = {
    'no_hidden_mutation': {'configs': cfg_mut, 'run': run_mut, 'small': 4, 'validate_paths': 1},
    'inplace_targets': {'configs': cfg_inplace, 'run': run_inplace, 'small': 4, 'validate_paths': 1},
    'history': {'configs': cfg_hist, 'run': run_hist, 'small': 4, 'validate_paths': 1},
}

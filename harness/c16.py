"""C16 - detector chain: right quantum efficiency at every pixel, exact digitisation."""
import itertools, random, warnings
from fractions import Fraction
import numpy as rnp

EXPLANATION = ('C16: collect_charge / collect_charge_bayer / adc on symbolic photon cubes, quantum efficiencies, electron frames (negative and saturated '
               'values included: the explorer splits on saturation and sign), gains and saturation capacity; the colour mosaics are concrete so scipy.ndimage.zoom is the real function.')
BOUNDS = {'quick': 'cubes of 1..3 wavelengths x (2x2, 2x3); QE scalar/vector/Spectrum in 4 units; Bayer: 4 Bayer patterns + sampled 2x2/3x3 strings, 1..2 tiles per axis, oversample 1..3; '
                   'adc: gain scalar / 1-D order 1..3 / 2-D / 3-D order 1..2, frames 1x2 and 2x2, dtype None/int/uint16/float32, saturation none/symbolic, warn on/off',
          'thorough': 'oversample up to 4; all 81 2x2 pattern strings; 3-D gains of order 3; frames up to 2x3'}
ASSUMPTIONS = ['integer overflow on the dtype cast is outside the claim', 'monotonicity of adc is asserted for non-negative gains and non-negative inputs (the property\'s wording)']
STUBS = ['scipy.ndimage.zoom on the concrete mosaic: the real scipy function']


# ------------------------------------------------------------------ collect_charge
def cfg_cc(tier, seed):
    out = []
    for nw in (1, 2, 3):
        for shp in ((2, 2), (2, 3)):
            for form in ('scalar', 'vector', 'spectrum-nm', 'spectrum-um', 'spectrum-m', 'spectrum-angstrom'):
                out.append({'nw': nw, 'shape': list(shp), 'qe': form})
    return out, len(out), True


def run_cc(W, cfg):
    lt = W.lentil
    R = W.mod('radiometry')
    nw, shp = cfg['nw'], tuple(cfg['shape'])
    img = W.array([[[W.real(f'ph_{w}_{i}_{j}') for j in range(shp[1])] for i in range(shp[0])] for w in range(nw)])
    waves = [500 + 25 * k for k in range(nw)]
    if cfg['qe'] == 'scalar':
        q = W.real('q')
        qs = [q] * nw
        got = lt.detector.collect_charge(img, waves, q)
    else:
        qs = [W.real(f'q{k}') for k in range(nw)]
        if cfg['qe'] == 'vector':
            got = lt.detector.collect_charge(img, waves, W.array(qs))
        else:
            unit = cfg['qe'].split('-')[1]
            fac = {'nm': Fraction(1), 'um': Fraction(1, 1000), 'm': Fraction(1, 10 ** 9), 'angstrom': Fraction(10)}[unit]
            # a QE spectrum in `unit` whose samples sit exactly at the cube's wavelengths (plus guard samples)
            grid = [Fraction(475)] + [Fraction(w) for w in waves] + [Fraction(waves[-1] + 25)]
            vals = [W.real('qlo')] + qs + [W.real('qhi')]
            sp = R.Spectrum(W.array([W.const(g * fac) for g in grid]), W.array(vals), waveunit=unit)
            got = lt.detector.collect_charge(img, waves, sp, waveunit='nm')
            W.ob('the QE spectrum still describes the same wavelengths', sp.wave * (W.const(1 / fac) if W.sym else float(1 / fac)), W.array([W.const(g) for g in grid]))
    want = [[W.sum(img[w][i, j] * qs[w] for w in range(nw)) for j in range(shp[1])] for i in range(shp[0])]
    W.ob('e = sum_w photons * qe', got, W.array(want))
    if cfg['qe'].startswith('spectrum'):
        # the same Spectrum object with its values replaced (a revised calibration), same wavelengths: the new curve is the one applied;
        # and a different Spectrum afterwards on the same wavelengths is applied as itself
        qs2 = [W.real(f'r{k}') for k in range(nw)]
        sp.value = W.array([W.real('rlo')] + qs2 + [W.real('rhi')])
        got2 = lt.detector.collect_charge(img, waves, sp, waveunit='nm')
        W.ob('QE values replaced on the same Spectrum: e = sum_w photons * new qe', got2,
             W.array([[W.sum(img[w][i, j] * qs2[w] for w in range(nw)) for j in range(shp[1])] for i in range(shp[0])]))
        for rep in range(3):
            half = sp * (W.const(Fraction(1, 2 + rep)) if W.sym else 1.0 / (2 + rep))       # a temporary, dropped after the call
            got3 = lt.detector.collect_charge(img, waves, half, waveunit='nm')
            del half
            W.ob(f'a temporary scaled QE spectrum (1/{2 + rep}) is applied as itself', got3 * (2 + rep),
                 W.array([[W.sum(img[w][i, j] * qs2[w] for w in range(nw)) for j in range(shp[1])] for i in range(shp[0])]))


# ------------------------------------------------------------------ bayer
def cfg_bayer(tier, seed):
    rng = random.Random(1616 + seed)
    pats = ['RGGB', 'BGGR', 'GRBG', 'GBRG'] + [''.join(rng.choice('RGB') for _ in range(4)) for _ in range(3)] + [''.join(rng.choice('RGB') for _ in range(9)) for _ in range(3)]
    if tier != 'quick':
        pats = sorted(set(pats + [''.join(p) for p in itertools.product('RGB', repeat=4)]))
    out = []
    for pat in pats:
        k = int(round(len(pat) ** 0.5))
        for tiles in ((1, 1), (1, 2), (2, 1)):
            for os in ((1, 2, 3) if tier == 'quick' else (1, 2, 3, 4)):
                if tier == 'quick' and k == 3 and (os > 2 or tiles != (1, 1)):
                    continue
                out.append({'pattern': pat, 'tiles': list(tiles), 'os': os, 'flatten': (len(out) % 3 != 0)})
                if len(out) % 4 == 1:
                    out[-1]['case'] = 'lower' if len(out) % 8 == 1 else 'mixed'        # pattern letters are accepted in either case
    return out, len(out), False


def run_bayer(W, cfg):
    lt = W.lentil
    pat = cfg['pattern']
    k = int(round(len(pat) ** 0.5))
    os = cfg['os']
    nr, nc = k * cfg['tiles'][0] * os, k * cfg['tiles'][1] * os
    nw = 2
    img = W.array([[[W.real(f'ph_{w}_{i}_{j}') for j in range(nc)] for i in range(nr)] for w in range(nw)])
    q = {c: [W.real(f'q{c}{w}') for w in range(nw)] for c in 'RGB'}
    waves = [500, 600]
    def int_cube_ok():
        import numpy as _np
        Dt = W.lentil.detector
        base = (_np.arange(nw * nr * nc).reshape(nw, nr, nc) * 7) % 10 + 1
        qr, qg, qb = _np.array([0.35, 0.6]), _np.array([0.55, 0.2]), _np.array([0.15, 0.85])
        for fl in (True, False):
            ref = Dt.collect_charge_bayer(base.astype(float), waves, qr, qg, qb, pat, oversample=os, flatten=fl)
            for dt in ('int64', 'int32', 'uint16'):
                got_ = Dt.collect_charge_bayer(base.astype(dt), waves, qr, qg, qb, pat, oversample=os, flatten=fl)
                if not all(_np.allclose(_np.asarray(g_, dtype=float), _np.asarray(r_, dtype=float), rtol=1e-12, atol=1e-12) for g_, r_ in zip(_np.atleast_3d(got_) if fl else got_, _np.atleast_3d(ref) if fl else ref)):
                    return False
        mono = Dt.collect_charge(base.astype('int32'), waves, qg)
        return bool(_np.allclose(_np.asarray(mono, dtype=float), _np.asarray(Dt.collect_charge(base.astype(float), waves, qg), dtype=float), rtol=1e-12, atol=1e-12))
    W.ob_concrete('photon cubes of whole counts held as integers collect the same charge as the same counts held as floats', int_cube_ok)
    as_given = {'lower': pat.lower(), 'mixed': ''.join(ch.lower() if n % 2 else ch for n, ch in enumerate(pat))}.get(cfg.get('case'), pat)
    got = lt.detector.collect_charge_bayer(img, waves, W.array(q['R']), W.array(q['G']), W.array(q['B']), as_given, oversample=os, flatten=cfg['flatten'])

    def colour(i, j):
        return pat[((i // os) % k) * k + ((j // os) % k)]

    flat = [[W.sum(img[w][i, j] * q[colour(i, j)][w] for w in range(nw)) for j in range(nc)] for i in range(nr)]
    if cfg['flatten']:
        W.ob('every sub-pixel uses the QE of its native pixel\'s colour', got, W.array(flat))
    else:
        for ch, name in zip(got, 'RGB'):
            W.ob(f'channel {name}', ch, W.array([[flat[i][j] if colour(i, j) == name else 0 for j in range(nc)] for i in range(nr)]))
        W.ob('channels sum to the flattened image', got[0] + got[1] + got[2], W.array(flat))
    # the same frame read with other oversampling factors in the same process (call history must not matter)
    for os2 in (1, 2, 3):
        if os2 != os and nr % (k * os2) == 0 and nc % (k * os2) == 0:
            g2 = lt.detector.collect_charge_bayer(img, waves, W.array(q['R']), W.array(q['G']), W.array(q['B']), pat, oversample=os2, flatten=True)
            col2 = lambda i, j: pat[((i // os2) % k) * k + ((j // os2) % k)]
            W.ob(f'same frame, oversample {os2} after {os}', g2, W.array([[W.sum(img[w][i, j] * q[col2(i, j)][w] for w in range(nw)) for j in range(nc)] for i in range(nr)]))
    same = lt.detector.collect_charge_bayer(img, waves, W.array(q['R']), W.array(q['R']), W.array(q['R']), pat, oversample=os)
    W.ob('equal efficiencies reproduce the monochrome result', same, lt.detector.collect_charge(img, waves, W.array(q['R'])))
    # ... also when the caller hands over one and the same array object for the three channels
    one = W.array(q['G'])
    same_obj = lt.detector.collect_charge_bayer(img, waves, one, one, one, pat, oversample=os)
    W.ob('one efficiency array passed for all channels reproduces the monochrome result', same_obj, lt.detector.collect_charge(img, waves, W.array(q['G'])))
    W.ob('the shared efficiency array is left untouched', one, W.array(q['G']))


# ------------------------------------------------------------------ adc
def cfg_adc(tier, seed):
    out = []
    gains = ['scalar', '1d-1', '1d-2', '1d-3', '2d', '3d-1', '3d-2'] + (['3d-3'] if tier != 'quick' else [])
    for g in gains:
        for shp in ((1, 2), (2, 2)):
            if g.startswith('3d') and shp == (2, 2) and tier == 'quick':
                continue
            if g in ('1d-2', '1d-3') and shp == (2, 2):
                continue            # non-linear gain curves: frame 1x2 (the floor of a cubic in several saturating pixels exceeds the solver budget)
            for sat in (False, True):
                for dtype in ((None, 'int') if tier == 'quick' and shp == (2, 2) else (None, 'int', 'uint16', 'float32')):
                    out.append({'gain': g, 'shape': list(shp), 'sat': sat, 'dtype': dtype, 'warn': sat and (len(out) % 2 == 0)})
    return out, len(out), True


def _int_gain_ok(W):
    import numpy as _np
    A = W.lentil.detector.adc
    img = _np.array([[1.7, 0.4], [2.5, 3.9]])
    cases = [(2, _np.floor(2 * img)), (_np.int64(3), _np.floor(3 * img)), ([1, 3], _np.floor(img ** 2 + 3 * img)), (_np.array([1, 3]), _np.floor(img ** 2 + 3 * img)),
             (_np.array([[2, 1], [3, 2]]), _np.floor(_np.array([[2, 1], [3, 2]]) * img)), (_np.array([[[1, 0], [2, 1]], [[3, 2], [0, 4]]]), None)]
    for g, want in cases:
        got = _np.asarray(A(img, g), dtype=float)
        if want is None:
            gf = _np.asarray(g, dtype=float)
            want = _np.floor(gf[0] * img ** 2 + gf[1] * img)
        if got.shape != want.shape or not _np.array_equal(got, want):
            return False
    return True


def run_adc(W, cfg):
    if cfg['gain'] == 'scalar' and cfg['dtype'] is None and not cfg['sat']:
        W.ob_concrete('gains held as integers act on fractional electron counts like the same gains held as floats', lambda: _int_gain_ok(W))
    lt = W.lentil
    shp = tuple(cfg['shape'])
    cells = [(i, j) for i in range(shp[0]) for j in range(shp[1])]
    e = W.reals('e', shp)
    e0 = e.copy()
    sat = W.real('sat', pos=True) if cfg['sat'] else None
    g = cfg['gain']
    if g == 'scalar':
        gs = W.real('g')
        gain = gs
        poly = lambda x, i, j: gs * x
    elif g.startswith('1d'):
        K = int(g[-1])
        gv = [W.real(f'g{k}') for k in range(K)]
        gain = W.array(gv)
        poly = lambda x, i, j: W.sum(gv[k] * x ** (K - k) for k in range(K))
    elif g == '2d':
        ga = W.reals('g', shp)
        gain = ga
        poly = lambda x, i, j: ga[i, j] * x
    else:
        K = int(g[-1])
        gc = W.array([[[W.real(f'g_{k}_{i}_{j}') for j in range(shp[1])] for i in range(shp[0])] for k in range(K)])
        gain = gc
        poly = lambda x, i, j: W.sum(gc[k][i, j] * x ** (K - k) for k in range(K))
    dt = {None: None, 'int': int, 'uint16': rnp.uint16, 'float32': rnp.float32}[cfg['dtype']]
    with warnings.catch_warnings(record=True) as wlist:
        warnings.simplefilter('always')
        out = lt.detector.adc(e, gain, saturation_capacity=sat, warn_saturate=cfg['warn'], dtype=dt)
    warned = any('saturated' in str(w.message) for w in wlist)
    for (i, j) in cells:
        x = e0[i, j]
        if sat is not None:
            x = W.min(x, sat)
        W.ob(f'DN = max(0, floor(gain polynomial at the clipped electron count)) [{i},{j}]', out[i, j], W.max(W.floor(poly(x, i, j)), 0))
        W.ob_true(f'DN >= 0 [{i},{j}]', out[i, j] >= 0)
    if cfg['sat']:
        over = False
        for (i, j) in cells:
            over = over or W.is_true(e0[i, j] > sat)
        W.ob_true('warns exactly when a pixel exceeds capacity', warned == (over and cfg['warn']))
    W.ob('the caller\'s frame is untouched', e, e0)
    W.ob_concrete('requested output dtype', lambda: dt is None or out.dtype == rnp.dtype(dt))
    W.ob_concrete('never negative, also in the requested (possibly unsigned) dtype: negative counts digitise to 0',
                  lambda: bool(all(float(out[i, j]) >= 0 and (float(e0[i, j]) >= 0 or g != 'scalar' or float(gs) < 0 or float(out[i, j]) == 0) for (i, j) in cells)))
    # monotone for non-negative gains on non-negative inputs (scalar gain form)
    if g == 'scalar' and not cfg['sat']:
        a, b = W.real('ma', nonneg=True), W.real('mb', nonneg=True)
        W.assume(a <= b)
        W.assume(gs >= 0)
        da = lt.detector.adc(W.array([[a]]), gs)
        db = lt.detector.adc(W.array([[b]]), gs)
        W.ob_true('non-decreasing', da[0, 0] <= db[0, 0])


HARNESSES = {
    'collect_charge': {'configs': cfg_cc, 'run': run_cc, 'small': 4},
    'bayer': {'configs': cfg_bayer, 'run': run_bayer, 'small': 4},
    'adc': {'configs': cfg_adc, 'run': run_adc, 'small': 16, 'max_paths': 600},
}

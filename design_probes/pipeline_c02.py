import sys, time, itertools; sys.path.insert(0,'.')
from pipeline_shim import *
import pipeline_shim as symshim
L = load_pkg(sys.argv[1] if len(sys.argv)>1 else '/repo/lentil')

def symreal(name, m, n):
    a = rnp.empty((m,n), dtype=object)
    for i in range(m):
        for j in range(n): a[i,j] = SR(z3.Real(f'{name}_{i}_{j}'))
    return a

def spec_field(amp, opd, mask, lam, f, dx, du, os_, shape_out, window):
    m, n = amp.shape; M, N = shape_out
    ar = dx[0]*du[0]/(lam*f*os_); ac = dx[1]*du[1]/(lam*f*os_)
    out = {}
    for i in range(M):
        for j in range(N):
            if not window(i,j): out[i,j] = SC(z3.RealVal(0), z3.RealVal(0)); continue
            acc = SC(z3.RealVal(0), z3.RealVal(0))
            for x in range(m):
                for y in range(n):
                    if not mask[x,y]: continue
                    X = x - m//2; Y = y - n//2; U = i - M//2; V = j - N//2
                    c0,s0 = cexp_atom(opd[x,y].e/lam)
                    c1,s1 = cexp_atom(-(ar*X*U)); c2,s2 = cexp_atom(-(ac*Y*V))
                    acc = acc + SC.of(amp[x,y])*SC(c0,s0)*SC(c1,s1)*SC(c2,s2)
            acc = acc * SR(sqrt_atom(z3.If(ar*ac>=0, ar*ac, -(ar*ac))))
            out[i,j] = acc
    return out

def run(pshape, support, shape, prop_shape, os_):
    ATOMS.clear(); SQ.clear()
    m, n = pshape
    mask = rnp.zeros(pshape); 
    for (x,y) in support: mask[x,y] = 1
    amp = symreal('a', m, n); opd = symreal('o', m, n)
    lam, f = z3.Reals('lam f'); dx0,dx1,du0,du1 = z3.Reals('dx0 dx1 du0 du1')
    assum = [lam>0, f>0, dx0>0, dx1>0, du0>0, du1>0]
    symshim.ASSUME[:] = assum; symshim._solver[0]=None
    L.fourier._dft2_coords.cache_clear()
    p = L.Pupil(amplitude=amp, opd=opd, mask=mask.copy(), pixelscale=(SR(dx0), SR(dx1)), focal_length=SR(f))
    w = p * L.Wavefront(SR(lam))
    wo = L.propagate_dft(w, (SR(du0), SR(du1)), shape=shape, prop_shape=prop_shape, oversample=os_)
    F = wo.field
    M, N = shape[0]*os_, shape[1]*os_
    P0, P1 = prop_shape[0]*os_, prop_shape[1]*os_
    def window(i,j):
        u, v = i - M//2, j - N//2
        return (-(P0//2) <= u <= -(P0//2)+P0-1) and (-(P1//2) <= v <= -(P1//2)+P1-1)
    S = spec_field(amp, opd, mask, lam, f, (dx0,dx1), (du0,du1), os_, (M,N), window)
    s = z3.Solver(); s.add(*assum)
    diffs = []
    for i in range(M):
        for j in range(N):
            a = SC.of(F[i,j]); b = S[i,j]
            diffs.append(z3.Or(a.re != b.re, a.im != b.im))
    s.add(z3.Or(*diffs)); s.set('timeout', 60000)
    r = s.check()
    meta_ok = (tuple(wo.shape) == (M,N))
    return str(r), meta_ok

t0=time.time(); n=0; bad=[]
cfgs=[]
for pshape in [(2,2),(2,3),(3,2),(3,3)]:
    cells=[(x,y) for x in range(pshape[0]) for y in range(pshape[1])]
    supports=[cells, cells[:1], cells[-2:], [cells[0], cells[-1]]]
    for sup in supports:
        for shape in [(2,2),(3,2),(2,3),(3,3)]:
            for prop in [shape, (max(1,shape[0]-1), shape[1]), (1,1)]:
                for os_ in (1,2):
                    cfgs.append((pshape, sup, shape, prop, os_))
for c in cfgs:
    try:
        r, ok = run(*c)
    except Exception as e:
        import traceback; traceback.print_exc(); print('CFG', c); sys.exit(1)
    n+=1
    if r!='unsat' or not ok: bad.append((c,r,ok))
print('atom-merge queries', symshim.NQ[0]); print('configs', n, 'bad', len(bad), 'time', round(time.time()-t0,1))
for b in bad[:5]: print(b)

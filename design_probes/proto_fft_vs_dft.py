import sys, time; sys.path.insert(0, '.')
from proto_sx import *
import proto_sx as sx
L = load()
sx.CLOSED_HINT[0] = True
def F(x): return SNum(z3.RealVal(str(Fraction(x))), False)

def fft_vs_dft(pshape, N, os_):
    def harness():
        amp = symreal_array('a', pshape); opd = symreal_array('o', pshape)
        lam = SNum(z3.Real('lam'), False)
        c = ctx(); c.solver.add(lam.e > 0); c.assumptions.append(lam.e > 0)
        du = (F(Fraction(1, N)), F(Fraction(1, N)))
        p = L.Pupil(amplitude=amp, opd=opd, mask=rnp.ones(pshape), pixelscale=(F(1), F(1)), focal_length=1 / lam)
        w = p * L.Wavefront(lam)
        wf = L.propagate_fft(w, du, oversample=os_)
        w2 = p * L.Wavefront(wf.wavelength)
        n_nat = wf.shape[0] // os_
        sh = (int(wf.shape[0]) // os_, int(wf.shape[1]) // os_); wd = L.propagate_dft(w2, du, shape=sh, oversample=os_)
        return wf, wd
    res = explore(harness)
    c, (tag, val) = res[0]
    if tag != 'ok': raise val
    wf, wd = val
    sx.CUR[0] = c
    A, B = wf.field, wd.field
    if A.shape != B.shape: return ('shape', A.shape, B.shape, len(res))
    bad = 0
    for idx in rnp.ndindex(A.shape):
        ok, info = is_zero(SCx.of(A[idx]) - SCx.of(B[idx]))
        if not ok: bad += 1
    # wavelength
    wl_ok = c.valid(wf.wavelength.e == z3.Real('lam')) if isinstance(wf.wavelength, SNum) else None
    return ('cmp', A.shape, 'bad pixels', bad, 'wl_ok', wl_ok, 'paths', len(res))

for cfg in [((2,2),2,1), ((2,2),4,1), ((3,3),4,1), ((2,2),3,1), ((3,3),5,1), ((2,2),2,2), ((2,3),3,2)]:
    t = time.time()
    try: print(cfg, fft_vs_dft(*cfg), round(time.time() - t, 1), 's', flush=True)
    except Exception as e:
        import traceback; traceback.print_exc(); break

import sys, time, z3, builtins, types, numpy as rnp
from fractions import Fraction
sys.path.insert(0,'.')

def rv(x):
    if isinstance(x, SR): return x.e
    if isinstance(x, bool): raise TypeError
    if isinstance(x, (int, rnp.integer)): return z3.RealVal(int(x))
    if isinstance(x, (float, rnp.floating)): return z3.RealVal(repr(float(x)))
    if isinstance(x, Fraction): return z3.RealVal(str(x))
    raise TypeError(type(x))
PI = z3.Real('PI')
ATOMS = {}
def cexp_atom(turns):
    key = z3.simplify(turns, som=True)
    k = key.sexpr()
    if k not in ATOMS:
        n = len(ATOMS)
        ATOMS[k] = (z3.Real(f'c{n}'), z3.Real(f's{n}'), key)
    return ATOMS[k][0], ATOMS[k][1]
SQ = {}
def sqrt_atom(e):
    key = z3.simplify(e, som=True); k = key.sexpr()
    if k not in SQ: SQ[k] = (z3.Real(f'q{len(SQ)}'), key)
    return SQ[k][0]

class SR:

    def __init__(s, e): s.e = e
    def _b(s, o, f):
        if isinstance(o, SC): return NotImplemented
        if isinstance(o, complex): return f(SC(s.e, z3.RealVal(0)), SC(rv(o.real), rv(o.imag))) if False else NotImplemented
        try: return SR(f(s.e, rv(o)))
        except TypeError: return NotImplemented
    def __add__(s,o): return s._b(o, lambda a,b:a+b)
    __radd__ = __add__
    def __sub__(s,o): return s._b(o, lambda a,b:a-b)
    def __rsub__(s,o): return s._b(o, lambda a,b:b-a)
    def __mul__(s,o):
        if isinstance(o, complex): return SC(s.e*rv(o.real), s.e*rv(o.imag))
        return s._b(o, lambda a,b:a*b)
    __rmul__ = __mul__
    def __truediv__(s,o): return s._b(o, lambda a,b:a/b)
    def __neg__(s): return SR(-s.e)
    def __abs__(s): return SR(z3.If(s.e>=0, s.e, -s.e))
    def sqrt(s): return SR(sqrt_atom(s.e))
    def conjugate(s): return s
    def __repr__(s): return f'SR({s.e})'
class SC:

    def __init__(s, re, im): s.re, s.im = re, im
    @staticmethod
    def of(o):
        if isinstance(o, SC): return o
        if isinstance(o, SR): return SC(o.e, z3.RealVal(0))
        if isinstance(o, (complex, rnp.complexfloating)): return SC(rv(o.real), rv(o.imag))
        return SC(rv(o), z3.RealVal(0))
    def __add__(s,o):
        if isinstance(o, rnp.ndarray): return NotImplemented
        o=SC.of(o); return SC(s.re+o.re, s.im+o.im)
    __radd__=__add__
    def __sub__(s,o):
        if isinstance(o, rnp.ndarray): return NotImplemented
        o=SC.of(o); return SC(s.re-o.re, s.im-o.im)
    def __mul__(s,o):
        if isinstance(o, rnp.ndarray): return NotImplemented
        o=SC.of(o); return SC(s.re*o.re - s.im*o.im, s.re*o.im + s.im*o.re)
    __rmul__=__mul__
    def __truediv__(s,o):
        o=SC.of(o); d = o.re*o.re+o.im*o.im
        return SC((s.re*o.re+s.im*o.im)/d, (s.im*o.re-s.re*o.im)/d)
    def conjugate(s): return SC(s.re, -s.im)
    def exp(s):
        assert z3.is_true(z3.simplify(s.re == 0)), s.re
        b = s.im
        b1 = z3.substitute(b, (PI, z3.RealVal(1)))
        turns = b1/2   # assumes b homogeneous linear in PI (checked separately)
        c, sn = cexp_atom(turns)
        return SC(c, sn)
    def __repr__(s): return f'SC({s.re},{s.im})'

real_np = rnp
class Shim(types.ModuleType):
    def __getattr__(self, n): return getattr(real_np, n)
np = Shim('numpy')
np.pi = SR(PI)
def exp(x):
    if isinstance(x, rnp.ndarray) and x.dtype == object:
        out = rnp.empty(x.shape, dtype=object)
        for idx in rnp.ndindex(x.shape): out[idx] = SC.of(x[idx]).exp()
        return out
    return real_np.exp(x)
np.exp = exp
def sqrt(x):
    if isinstance(x, SR): return x.sqrt()
    return real_np.sqrt(x)
np.sqrt = sqrt
np.abs = lambda x: abs(x)
def multiply(a, b, out=None):
    r = a * b
    if out is not None: out[...] = r; return out
    return r
np.multiply = multiply
def conj(a, out=None):
    r = rnp.frompyfunc(lambda v: v.conjugate(), 1, 1)(a)
    if out is not None: out[...] = r; return out
    return r
np.conj = conj
def divide(a, b, out=None):
    r = a / b
    if out is not None: out[...] = r; return out
    return r
np.divide = divide

def load(name, path, shims):
    mod = types.ModuleType(name); mod.__file__ = path
    bi = dict(vars(builtins)); real_import = builtins.__import__
    def imp(n, g=None, l=None, fromlist=(), level=0):
        if n in shims: return shims[n]
        return real_import(n, g, l, fromlist, level)
    bi['__import__'] = imp
    mod.__dict__['__builtins__'] = bi
    exec(compile(open(path).read(), path, 'exec'), mod.__dict__)
    return mod
src = sys.argv[1] if len(sys.argv)>1 else '/repo/lentil/fourier.py'
fourier = load('fourier_sym', src, {'numpy': np})

def symarr(name, m, n):
    a = rnp.empty((m,n), dtype=object)
    for i in range(m):
        for j in range(n): a[i,j] = SC(z3.Real(f'{name}r_{i}_{j}'), z3.Real(f'{name}i_{i}_{j}'))
    return a

def spec_dft(f, ar, ac, M, N, shr, shc, ofr, ofc, unitary):
    m, n = f.shape
    out = rnp.empty((M,N), dtype=object)
    for u in range(M):
        for v in range(N):
            acc = SC(z3.RealVal(0), z3.RealVal(0))
            for x in range(m):
                for y in range(n):
                    X = (x - m//2) + ofr; Y = (y - n//2) + ofc
                    U = (u - M//2) - shr; V = (v - N//2) - shc
                    c1,s1 = cexp_atom(-(ar*X*U)); c2,s2 = cexp_atom(-(ac*Y*V))
                    acc = acc + f[x,y]*SC(c1,s1)*SC(c2,s2)
            if unitary:
                acc = acc * SR(sqrt_atom(z3.If(ar*ac>=0, ar*ac, -(ar*ac))))
            out[u,v] = acc
    return out

tot_q=0; t0=time.time(); bad=0
shapes = [(m,n,M,N) for m in (1,2,3) for n in (1,2,3) for M in (1,2,3) for N in (1,2,3)]
for (m,n,M,N) in shapes:
    ATOMS.clear(); SQ.clear()
    f = symarr('f', m, n)
    ar, ac, shr, shc = z3.Reals('ar ac shr shc'); ofr, ofc = z3.Ints('ofr ofc')
    fourier._dft2_coords.cache_clear()
    F = fourier.dft2(f, (SR(ar), SR(ac)), shape=(M,N), shift=(SR(shr), SR(shc)),
                     offset=(SR(z3.ToReal(ofr)), SR(z3.ToReal(ofc))), unitary=True)
    S = spec_dft(f, ar, ac, M, N, shr, shc, z3.ToReal(ofr), z3.ToReal(ofc), True)
    s = z3.Solver()
    diffs = []
    for u in range(M):
        for v in range(N):
            a, b = SC.of(F[u,v]), S[u,v]
            diffs.append(z3.Or(a.re != b.re, a.im != b.im))
    s.add(z3.Or(*diffs)); tot_q+=1
    r = s.check()
    if r != z3.unsat:
        bad+=1
        if bad<3: print((m,n,M,N), r, 'atoms', len(ATOMS), 'sq', len(SQ))
print('shapes', len(shapes), 'bad', bad, 'time', round(time.time()-t0,1))

import z3, time
def chk(name, s, to=60000):
    s.set('timeout', to); t=time.time(); r=s.check(); print(name, r, round(time.time()-t,2), flush=True); return r
# symbolic: shift s (real), k=fix(s) int, sub=s-k ; out size N, prop size P (concrete), os folded
alpha, X = z3.Reals('alpha X')
s_ = z3.Real('s'); k = z3.Int('k'); sub = s_ - z3.ToReal(k)
fixc = z3.And(z3.If(s_>=0, z3.And(z3.ToReal(k)<=s_, s_<z3.ToReal(k)+1), z3.And(z3.ToReal(k)>=s_, s_>z3.ToReal(k)-1)))
def ext(n, sh): # array_extent 1-D: (min,max)
    mn = -(n/2) + sh if isinstance(n,int) is False else -(n//2)+sh
    return mn, mn+n-1
for N,P in [(4,4),(5,3),(6,4)]:
    omin,omax = -(N//2), -(N//2)+N-1
    pmin,pmax = -(P//2)+k, -(P//2)+k+P-1
    inter = z3.And(omin<=pmax, omax>=pmin)
    imin = z3.If(omin>pmin, omin, pmin); imax = z3.If(omax<pmax, omax, pmax)
    nr = imax-imin+1
    ishift = imin + nr/2          # intersection_shift (int div)
    # intersect_extent = array_extent((nr,), ishift) ; centers
    prop_center = pmin + P//2
    ie_min = -(nr/2) + ishift; ie_center = ie_min + nr/2
    prop_shift = prop_center - ie_center
    il = z3.Int('il')   # local index in dft2 output 0..nr-1
    U = z3.ToReal(il - nr/2) - (z3.ToReal(prop_shift) + sub)
    phase_impl = -alpha*X*U
    # placement: Field offset=ishift inserted into out of size N: global index i = il + (N//2 - nr/2 + ishift)
    i = il + (N//2) - nr/2 + ishift
    phase_spec = -alpha*X*(z3.ToReal(i - N//2) - s_)
    so = z3.Solver(); so.add(fixc, inter, il>=0, il<nr, phase_impl != phase_spec)
    chk(f'N={N} P={P} phase identity', so)
    so = z3.Solver(); so.add(fixc, inter, il>=0, il<nr, z3.Not(z3.And(i>=0, i<N)))
    chk(f'N={N} P={P} placement in range', so)

import z3, time
def chk(name, s, to=60000):
    s.set('timeout', to); t=time.time(); r=s.check(); print(name, r, round(time.time()-t,2), flush=True)
# 1. tilt phase identity with divisions
a,X,dx,du,lam,f,os_,u = z3.Reals('a X dx du lam f os u')
alpha = dx*du/(lam*f*os_)
lhs = a*X*dx/lam - alpha*X*u
rhs = -alpha*X*(u - a*f*os_/du)
s=z3.Solver(); s.add(dx>0,du>0,lam>0,f>0,os_>=1, lhs!=rhs); chk('tilt-phase', s)
# 3. pinv contract: B k x P, X P x k, BX=I  => X^T B^T c = c
k,P=3,5
B=[[z3.Real(f'B{i}{p}') for p in range(P)] for i in range(k)]
Xm=[[z3.Real(f'X{p}{i}') for i in range(k)] for p in range(P)]
c=[z3.Real(f'c{i}') for i in range(k)]
ax=[sum(B[i][p]*Xm[p][j] for p in range(P))==(1 if i==j else 0) for i in range(k) for j in range(k)]
opd=[sum(B[i][p]*c[i] for i in range(k)) for p in range(P)]
fit=[sum(Xm[p][j]*opd[p] for p in range(P)) for j in range(k)]
s=z3.Solver(); s.add(*ax); s.add(z3.Or(*[fit[j]!=c[j] for j in range(k)])); chk('pinv k3 P5', s)
k,P=4,9
B=[[z3.Real(f'B{i}{p}') for p in range(P)] for i in range(k)]
Xm=[[z3.Real(f'X{p}{i}') for i in range(k)] for p in range(P)]
c=[z3.Real(f'c{i}') for i in range(k)]
ax=[sum(B[i][p]*Xm[p][j] for p in range(P))==(1 if i==j else 0) for i in range(k) for j in range(k)]
opd=[sum(B[i][p]*c[i] for i in range(k)) for p in range(P)]
fit=[sum(Xm[p][j]*opd[p] for p in range(P)) for j in range(k)]
s=z3.Solver(); s.add(*ax); s.add(z3.Or(*[fit[j]!=c[j] for j in range(k)])); chk('pinv k4 P9', s)
# 6. two adjacent hexagons non-overlap, real position, symbolic R,g
R,g,r,cc=z3.Reals('R g r c'); t=z3.Real('t')  # t = sqrt(3)
import math
def hexmask(r,c,R,rotate=False):
    inner=R*t/2; conds=[]
    for n in range(6):
        # theta = n*pi/3 + pi/6 (not rotated): sin,cos exact
        ang=(2*n+1)  # multiples of pi/6
        tab={1:(z3.RealVal(1)/2,t/2),3:(z3.RealVal(1),z3.RealVal(0)),5:(z3.RealVal(1)/2,-t/2),7:(-z3.RealVal(1)/2,-t/2),9:(z3.RealVal(-1),z3.RealVal(0)),11:(-z3.RealVal(1)/2,t/2)}
        sn,cs=tab[ang]
        rho=r*sn+c*cs
        conds.append(rho<=inner)
    return z3.And(*conds)
# centre of neighbour q=1,r=0: x = rad*3/2, y = rad*sqrt3/2, rad=R+g/2 ; (row,col)=(-y,x)
rad=R+g/2
cr,ccn=-(rad*t/2), rad*3/2
s=z3.Solver(); s.add(t*t==3,t>0,R>0,g>=0, hexmask(r,cc,R), hexmask(r-cr,cc-ccn,R)); chk('hex nonoverlap g>=0', s)
s=z3.Solver(); s.add(t*t==3,t>0,R>0,g>0, hexmask(r,cc,R), hexmask(r-cr,cc-ccn,R)); chk('hex nonoverlap g>0', s)
s=z3.Solver(); s.add(t*t==3,t>0,R>0,g>=-1, hexmask(r,cc,R), hexmask(r-cr,cc-ccn,R)); chk('hex overlap g>=-1 (twin must be sat)', s)

from typing import Tuple
import lentil.extent as E

def chk_intersect(a: Tuple[int,int,int,int], b: Tuple[int,int,int,int], r: int, c: int) -> bool:
    """
    pre: a[0] <= a[1] and a[2] <= a[3] and b[0] <= b[1] and b[2] <= b[3]
    post: _
    """
    ina = a[0] <= r <= a[1] and a[2] <= c <= a[3]
    inb = b[0] <= r <= b[1] and b[2] <= c <= b[3]
    if ina and inb:
        return E.intersect(a, b) == True
    return True

def chk_shape(a: Tuple[int,int,int,int], b: Tuple[int,int,int,int]) -> bool:
    """
    pre: a[0] <= a[1] and a[2] <= a[3] and b[0] <= b[1] and b[2] <= b[3]
    post: _
    """
    s = E.intersection_shape(a, b)
    if E.intersect(a, b):
        return len(s) == 2 and s[0] >= 1 and s[1] >= 1
    return s == ()

def chk_extent(n0: int, n1: int, s0: int, s1: int) -> bool:
    """
    pre: n0 >= 1 and n1 >= 1
    post: _
    """
    rmin, rmax, cmin, cmax = E.array_extent((n0, n1), (s0, s1))
    return rmax - rmin + 1 == n0 and E.array_center((rmin, rmax, cmin, cmax)) == (s0, s1)

def chk_false(n0: int, n1: int, s0: int, s1: int) -> bool:
    """
    pre: n0 >= 1 and n1 >= 1
    post: _
    """
    rmin, rmax, cmin, cmax = E.array_extent((n0, n1), (s0, s1))
    return rmin != 7

"""Probe: overloading-based symbolic executor with z3 (path forking by re-execution)."""
import z3, builtins, types, sys, os, time

class PathAbort(BaseException): pass

class Ctx:
    cur = None
    def __init__(self):
        self.solver = z3.Solver()
        self.trail = []      # decisions for this run (list of bool)
        self.pos = 0
        self.pc = []
        self.queries = 0
    def decide(self, cond):
        # cond: z3 BoolRef
        cond = z3.simplify(cond)
        if z3.is_true(cond): return True
        if z3.is_false(cond): return False
        if self.pos < len(self.trail):
            d = self.trail[self.pos][0]
        else:
            # choose True if feasible, else False
            self.queries += 1
            self.solver.push(); self.solver.add(cond); r = self.solver.check(); self.solver.pop()
            if r == z3.sat:
                self.queries += 1
                self.solver.push(); self.solver.add(z3.Not(cond)); r2 = self.solver.check(); self.solver.pop()
                self.trail.append([True, r2 == z3.sat])   # [decision, other-branch-feasible]
            else:
                self.trail.append([False, False])
            d = self.trail[self.pos][0]
        self.pos += 1
        c = cond if d else z3.Not(cond)
        self.pc.append(c); self.solver.add(c)
        return d

def explore(fn, setup=()):
    """Run fn() over all feasible paths. yields (pc, result)"""
    trail = []
    out = []
    while True:
        ctx = Ctx(); ctx.trail = trail
        for s in setup: ctx.solver.add(s)
        Ctx.cur = ctx
        res = fn()
        out.append((list(ctx.pc), res, ctx))
        # backtrack
        trail = ctx.trail[:ctx.pos]
        while trail and not (trail[-1][0] and trail[-1][1]):
            trail.pop()
        if not trail: break
        trail[-1] = [False, False]
    return out

def z(x):
    if isinstance(x, SInt): return x.e
    if isinstance(x, bool): return z3.BoolVal(x)
    if isinstance(x, int): return z3.IntVal(x)
    raise TypeError(type(x))

class SBool:
    def __init__(self, e): self.e = e
    def __bool__(self): return Ctx.cur.decide(self.e)

class SInt:
    def __init__(self, e): self.e = e
    def _b(self, o, f):
        try: return SInt(f(self.e, z(o)))
        except TypeError: return NotImplemented
    def __add__(s,o): return s._b(o, lambda a,b:a+b)
    def __radd__(s,o): return s._b(o, lambda a,b:b+a)
    def __sub__(s,o): return s._b(o, lambda a,b:a-b)
    def __rsub__(s,o): return s._b(o, lambda a,b:b-a)
    def __mul__(s,o): return s._b(o, lambda a,b:a*b)
    def __rmul__(s,o): return s._b(o, lambda a,b:b*a)
    def __neg__(s): return SInt(-s.e)
    def __floordiv__(s,o):
        assert isinstance(o,int) and o>0
        return SInt(s.e / o)   # z3 int div: floor for positive divisor
    def __lt__(s,o): return SBool(s.e < z(o))
    def __le__(s,o): return SBool(s.e <= z(o))
    def __gt__(s,o): return SBool(s.e > z(o))
    def __ge__(s,o): return SBool(s.e >= z(o))
    def __eq__(s,o): return SBool(s.e == z(o))
    def __ne__(s,o): return SBool(s.e != z(o))
    __hash__ = None
    def __index__(s): raise TypeError('symbolic index')
    def __repr__(s): return f'SInt({s.e})'

import z3, time, sys
from math import gcd
def run(Nr,Nc,m,n,timeout=120000):
    L = Nr*Nc//gcd(Nr,Nc)
    c=[z3.Real(f'c{k}') for k in range(L)]; s=[z3.Real(f's{k}') for k in range(L)]
    ax=[c[0]==1, s[0]==0]
    for k in range(1,L):
        ax += [c[k]==c[L-k], s[k]==-s[L-k]]
    for g in range(1,L):
        if L%g==0 and g<L:
            ax += [sum(c[(g*j)%L] for j in range(L//g))==0, sum(s[(g*j)%L] for j in range(L//g))==0]
    fr=[[z3.Real(f'r{i}{j}') for j in range(n)] for i in range(m)]
    fi=[[z3.Real(f'i{i}{j}') for j in range(n)] for i in range(m)]
    # normal form: energy = sum_{u,v} sum_{x,y,x',y'} f f'^* zeta^{phase}; phase index in Z_L
    # accumulate coefficient per phase index
    coef_re={}; coef_im={}
    for x in range(m):
      for y in range(n):
        for x2 in range(m):
          for y2 in range(n):
            # f[x,y]*conj(f[x2,y2])
            pr = fr[x][y]*fr[x2][y2]+fi[x][y]*fi[x2][y2]
            pi_ = fi[x][y]*fr[x2][y2]-fr[x][y]*fi[x2][y2]
            for u in range(Nr):
              for v in range(Nc):
                ph = (-(x-x2)*(u-Nr//2)*(L//Nr) - (y-y2)*(v-Nc//2)*(L//Nc)) % L
                coef_re[ph]=coef_re.get(ph,0)+pr; coef_im[ph]=coef_im.get(ph,0)+pi_
    tot = sum(coef_re[k]*c[k]-coef_im[k]*s[k] for k in coef_re)/(Nr*Nc)
    pin=sum(fr[x][y]*fr[x][y]+fi[x][y]*fi[x][y] for x in range(m) for y in range(n))
    sol=z3.Solver(); sol.set('timeout',timeout); sol.add(*ax); sol.add(tot!=pin); t=time.time(); r=sol.check(); return r, round(time.time()-t,2)
for cfg in [(3,3,3,3),(5,5,2,2),(5,5,3,3),(6,6,3,3),(5,3,3,2),(7,7,3,3),(8,6,3,3)]:
    print(cfg, run(*cfg), flush=True)

"""Probe: fuller shim – run Plane/Wavefront/propagate_dft from real source on object ndarrays."""
import sys, time, z3, builtins, types, os, numpy as rnp, scipy, scipy.ndimage, scipy.integrate, scipy.optimize, scipy.signal, scipy.interpolate
from fractions import Fraction

PI = z3.Real('PI')
ATOMS = {}; SQ = {}
ASSUME = []
NQ = [0]
_solver = [None]
def valid_eq(a, b):
    if _solver[0] is None or _solver[0][1] != len(ASSUME):
        sv = z3.Solver(); sv.add(*ASSUME); _solver[0] = (sv, len(ASSUME))
    sv = _solver[0][0]
    NQ[0] += 1
    sv.push(); sv.add(a != b); sv.set('timeout', 5000); r = sv.check(); sv.pop()
    return r == z3.unsat
def cexp_atom(turns):
    key = z3.simplify(turns, som=True); k = key.sexpr()
    if k in ATOMS: return ATOMS[k][0], ATOMS[k][1]
    if valid_eq(key, z3.RealVal(0)):
        ATOMS[k] = (z3.RealVal(1), z3.RealVal(0), key); return ATOMS[k][0], ATOMS[k][1]
    for k2,(c,sn,key2) in list(ATOMS.items()):
        if valid_eq(key, key2):
            ATOMS[k] = (c, sn, key); return c, sn
    n = len(ATOMS); ATOMS[k] = (z3.Real(f'c{n}'), z3.Real(f's{n}'), key)
    return ATOMS[k][0], ATOMS[k][1]
def sqrt_atom(e):
    key = z3.simplify(e, som=True); k = key.sexpr()
    if k not in SQ: SQ[k] = (z3.Real(f'q{len(SQ)}'), key)
    return SQ[k][0]
ZERO=z3.RealVal(0); ONE=z3.RealVal(1)
def is0(e): return z3.is_rational_value(e) and e.numerator_as_long()==0
def is1(e): return z3.is_rational_value(e) and e.numerator_as_long()==e.denominator_as_long()
def M(a,b):
    if is0(a) or is0(b): return ZERO
    if is1(a): return b
    if is1(b): return a
    return a*b
def A(a,b):
    if is0(a): return b
    if is0(b): return a
    return a+b
def S(a,b):
    if is0(b): return a
    if is0(a): return -b
    return a-b
def D(a,b):
    if is0(a): return ZERO
    if is1(b): return a
    return a/b
def rv(x):
    if isinstance(x, SR): return x.e
    if isinstance(x, (bool, rnp.bool_)): return z3.RealVal(int(x))
    if isinstance(x, (int, rnp.integer)): return z3.RealVal(int(x))
    if isinstance(x, (float, rnp.floating)):
        f = float(x)
        return z3.RealVal(int(f)) if f == int(f) else z3.RealVal(repr(f))
    raise TypeError(type(x))
def isnum(o): return isinstance(o, (int, float, rnp.integer, rnp.floating, rnp.bool_))
class SR:
    def __init__(s, e): s.e = e
    def _b(s, o, f):
        if isinstance(o, rnp.ndarray) or isinstance(o, SC): return NotImplemented
        if isinstance(o, (complex, rnp.complexfloating)): return NotImplemented
        return SR(f(s.e, rv(o)))
    def __add__(s,o): return s._b(o, A)
    __radd__ = __add__
    def __sub__(s,o): return s._b(o, S)
    def __rsub__(s,o): return s._b(o, lambda a,b:S(b,a))
    def __mul__(s,o):
        if isinstance(o, (complex, rnp.complexfloating)): return SC(M(s.e,rv(o.real)), M(s.e,rv(o.imag)))
        return s._b(o, M)
    __rmul__ = __mul__
    def __truediv__(s,o): return s._b(o, D)
    def __rtruediv__(s,o): return s._b(o, lambda a,b:D(b,a))
    def __neg__(s): return SR(-s.e)
    def __abs__(s): return SR(z3.If(s.e>=0, s.e, -s.e))
    def sqrt(s): return SR(sqrt_atom(s.e))
    def conjugate(s): return s
    def __repr__(s): return f'SR({s.e})'
class SC:
    def __init__(s, re, im): s.re, s.im = re, im
    @staticmethod
    def of(o):
        if isinstance(o, SC): return o
        if isinstance(o, SR): return SC(o.e, z3.RealVal(0))
        if isinstance(o, (complex, rnp.complexfloating)): return SC(rv(o.real), rv(o.imag))
        return SC(rv(o), z3.RealVal(0))
    def __add__(s,o):
        if isinstance(o, rnp.ndarray): return NotImplemented
        o=SC.of(o); return SC(A(s.re,o.re), A(s.im,o.im))
    __radd__=__add__
    def __sub__(s,o):
        if isinstance(o, rnp.ndarray): return NotImplemented
        o=SC.of(o); return SC(S(s.re,o.re), S(s.im,o.im))
    def __mul__(s,o):
        if isinstance(o, rnp.ndarray): return NotImplemented
        o=SC.of(o); return SC(S(M(s.re,o.re), M(s.im,o.im)), A(M(s.re,o.im), M(s.im,o.re)))
    __rmul__=__mul__
    def __truediv__(s,o):
        if isinstance(o, rnp.ndarray): return NotImplemented
        if isinstance(o, (SR,)) or isnum(o):
            d = rv(o); return SC(D(s.re,d), D(s.im,d))
        raise NotImplementedError
    def __pow__(s, p):
        assert p == 2; r = s*s; r.sq_of = s; return r
    def __abs__(s):
        w = getattr(s, 'sq_of', None)
        if w is not None: return SR(w.re*w.re + w.im*w.im)
        return SR(sqrt_atom(s.re*s.re+s.im*s.im))
    def conjugate(s): return SC(s.re, -s.im)
    def exp(s):
        assert is0(s.re), s.re
        b1 = z3.substitute(s.im, (PI, z3.RealVal(1)))
        c, sn = cexp_atom(b1/2); return SC(c, sn)
    def __repr__(s): return f'SC({s.re},{s.im})'

def is_sym(x):
    if isinstance(x, (SR, SC)): return True
    if isinstance(x, rnp.ndarray): return x.dtype == object
    if isinstance(x, (list, tuple)): return any(is_sym(e) for e in x)
    return False
def objarr(x):
    a = rnp.empty(len(x), dtype=object)
    for i,e in enumerate(x): a[i]=e
    return a
class Shim(types.ModuleType):
    def __getattr__(self, n): return getattr(rnp, n)
np = Shim('numpy')
np.pi = SR(PI)
def asarray(x, dtype=None):
    if is_sym(x):
        if isinstance(x, rnp.ndarray): return x
        if isinstance(x, (SR, SC)):
            a = rnp.empty((), dtype=object); a[()] = x; return a
        return rnp.array(x, dtype=object) if not all(isinstance(e,(SR,SC)) or isnum(e) for e in x) else objarr(list(x))
    return rnp.asarray(x, dtype=dtype)
np.asarray = asarray
def array(x, dtype=None, **kw):
    if is_sym(x): return asarray(x).copy()
    return rnp.array(x, dtype=dtype, **kw)
np.array = array
SYMBOLIC_ZEROS = True
def zeros(shape, dtype=float):
    if dtype in (complex, float) and SYMBOLIC_ZEROS:
        a = rnp.empty(shape, dtype=object); a[...] = 0; return a
    return rnp.zeros(shape, dtype=dtype)
np.zeros = zeros
def broadcast_to(x, shape):
    if is_sym(x):
        a = asarray(x)
        return rnp.broadcast_to(a, shape)
    return rnp.broadcast_to(x, shape)
np.broadcast_to = broadcast_to
def _map(f, x):
    out = rnp.empty(x.shape, dtype=object)
    for idx in rnp.ndindex(x.shape): out[idx] = f(x[idx])
    return out
def exp(x):
    if isinstance(x, rnp.ndarray) and x.dtype == object: return _map(lambda v: SC.of(v).exp(), x)
    if isinstance(x, (SR, SC)): return SC.of(x).exp()
    return rnp.exp(x)
np.exp = exp
def sqrt(x):
    if isinstance(x, SR): return x.sqrt()
    if isinstance(x, rnp.ndarray) and x.dtype == object: return _map(lambda v: v.sqrt(), x)
    return rnp.sqrt(x)
np.sqrt = sqrt
def abs_(x):
    if isinstance(x, rnp.ndarray) and x.dtype == object: return _map(lambda v: abs(v) if not isnum(v) else builtins.abs(v), x)
    return abs(x)
np.abs = abs_
def closed(v):
    if isnum(v): return float(v)
    e = z3.simplify(v.e)
    if z3.is_rational_value(e): return float(e.numerator_as_long())/float(e.denominator_as_long())
    raise NotImplementedError('fix symbolic '+str(e))
def fix(x):
    if is_sym(x): return rnp.fix(rnp.array([closed(v) for v in x]))
    return rnp.fix(x)
np.fix = fix
def out_wrap(fn):
    def g(a, b, out=None):
        r = fn(a, b)
        if out is not None: out[...] = r; return out
        return r
    return g
np.multiply = out_wrap(lambda a,b: a*b); np.divide = out_wrap(lambda a,b: a/b)
def conj(a, out=None):
    r = _map(lambda v: v.conjugate() if not isnum(v) else v, a) if (isinstance(a, rnp.ndarray) and a.dtype==object) else rnp.conj(a)
    if out is not None: out[...] = r; return out
    return r
np.conj = conj
def dot(a, b, out=None):
    r = rnp.dot(a, b)
    if out is not None: out[...] = r; return out
    return r
np.dot = dot
np.all = lambda x, *a, **k: rnp.all(x, *a, **k)

REG = {}
def load_pkg(root):
    pkg = types.ModuleType('lentil'); pkg.__path__ = [root]; REG['lentil'] = pkg
    real_import = builtins.__import__
    shims = {'numpy': np}
    def make(name, path):
        mod = types.ModuleType(name); mod.__file__ = path; mod.__package__ = 'lentil'
        bi = dict(vars(builtins))
        def imp(n, g=None, l=None, fromlist=(), level=0):
            if n in shims: return shims[n]
            if n == 'lentil' or n.startswith('lentil.'):
                get(n)
                if fromlist: return REG[n]
                return REG['lentil']
            return real_import(n, g, l, fromlist, level)
        bi['__import__'] = imp
        mod.__dict__['__builtins__'] = bi
        return mod
    def get(n):
        if n in REG: return REG[n]
        sub = n.split('.',1)[1]
        path = os.path.join(root, sub + '.py')
        mod = make(n, path); REG[n] = mod
        setattr(pkg, sub, mod)
        exec(compile(open(path).read(), path, 'exec'), mod.__dict__)
        return mod
    # emulate __init__
    init = os.path.join(root, '__init__.py')
    m = make('lentil', init); m.__dict__.update(pkg.__dict__); m.__path__=[root]
    REG['lentil'] = m
    pkg = m
    def get(n, pkg=m):
        if n in REG: return REG[n]
        sub = n.split('.',1)[1]
        path = os.path.join(root, sub + '.py')
        mod = make(n, path); REG[n] = mod
        exec(compile(open(path).read(), path, 'exec'), mod.__dict__)
        setattr(pkg, sub, mod)
        return mod
    globals()['get'] = get
    # patch closure use
    def imp2(n, g=None, l=None, fromlist=(), level=0):
        if n in shims: return shims[n]
        if n == 'lentil' or n.startswith('lentil.'):
            if n != 'lentil': get(n)
            if fromlist:
                for f in fromlist:
                    if not hasattr(REG[n], f) and n == 'lentil':
                        try: get('lentil.'+f)
                        except FileNotFoundError: pass
                return REG[n]
            return REG['lentil']
        return real_import(n, g, l, fromlist, level)
    m.__dict__['__builtins__']['__import__'] = imp2
    _make = make
    def make2(name, path):
        mod = _make(name, path); mod.__dict__['__builtins__']['__import__'] = imp2; return mod
    make = make2
    def get(n, pkg=m):
        if n in REG: return REG[n]
        sub = n.split('.',1)[1]
        path = os.path.join(root, sub + '.py')
        mod = make2(n, path); REG[n] = mod
        setattr(pkg, sub, mod)
        exec(compile(open(path).read(), path, 'exec'), mod.__dict__)
        return mod
    exec(compile(open(init).read(), init, 'exec'), m.__dict__)
    return m

import sys, time, z3, builtins, types
sys.path.insert(0,'.')
from lazy_core import *

class IVec:
    def __init__(self, v): self.v = list(v)
    def __getitem__(self, i): return self.v[i]
    def __len__(self): return len(self.v)
    def __iter__(self): return iter(self.v)
    def _b(self, o, f):
        if isinstance(o, (IVec, list, tuple)): return IVec(f(a,b) for a,b in zip(self.v,list(o)))
        return IVec(f(a,o) for a in self.v)
    def __floordiv__(s,o): return s._b(o, lambda a,b:a//b)
    def __add__(s,o): return s._b(o, lambda a,b:a+b)
    def __sub__(s,o): return s._b(o, lambda a,b:a-b)

def norm_slice(s, n):
    n = z(n)
    def fix(v, default):
        if v is None: return default
        v = z(v)
        v = z3.If(v < 0, v + n, v)
        return z3.If(v < 0, 0, z3.If(v > n, n, v))
    a = fix(s.start, z3.IntVal(0)); b = fix(s.stop, n)
    return a, z3.If(b < a, a, b)

class C:
    def __init__(s, re, im): s.re, s.im = re, im

class Lazy2D:
    def __init__(self, shape, fn): self.shape = tuple(shape); self.fn = fn
    def _view(self, key):
        if key is Ellipsis: return (z3.IntVal(0), z(self.shape[0])), (z3.IntVal(0), z(self.shape[1]))
        r, c = key
        return norm_slice(r, self.shape[0]), norm_slice(c, self.shape[1])
    def __getitem__(self, key):
        (r0,r1),(c0,c1) = self._view(key); fn = self.fn
        return Lazy2D((SInt(r1-r0), SInt(c1-c0)), lambda i,j: fn(i+r0, j+c0))
    def __setitem__(self, key, val):
        (r0,r1),(c0,c1) = self._view(key)
        ok = z3.And(z(val.shape[0]) == r1-r0, z(val.shape[1]) == c1-c0)
        if not SBool(ok): raise ValueError('operands could not be broadcast together')
        old = self.fn; vf = val.fn
        def fn(i,j):
            inside = z3.And(i>=r0, i<r1, j>=c0, j<c1)
            a = old(i,j); b = vf(i-r0, j-c0)
            return C(z3.If(inside, b.re, a.re), z3.If(inside, b.im, a.im))
        self.fn = fn
    def __iadd__(self, o):
        ok = z3.And(z(o.shape[0]) == z(self.shape[0]), z(o.shape[1]) == z(self.shape[1]))
        if not SBool(ok): raise ValueError('operands could not be broadcast together')
        f,g = self.fn, o.fn
        return Lazy2D(self.shape, lambda i,j: C(f(i,j).re+g(i,j).re, f(i,j).im+g(i,j).im))
    def __mul__(self, w):
        f=self.fn; w=z3.RealVal(w) if isinstance(w,(int,float)) else w
        return Lazy2D(self.shape, lambda i,j: C(f(i,j).re*w, f(i,j).im*w))

np = types.ModuleType('numpy')
np.asarray = lambda x, dtype=None: IVec(x) if isinstance(x,(tuple,list)) else x
def array_equal(a, b):
    a = list(a); b = list(b)
    if len(a) != len(b): return False
    return bool(SBool(z3.And(*[z(x) == z(y) for x,y in zip(a,b)])))
np.array_equal = array_equal
def sint(x): return x if isinstance(x, SInt) else builtins.int(x)

def load(name, path, shims, extra):
    mod = types.ModuleType(name); mod.__file__ = path
    bi = dict(vars(builtins)); real_import = builtins.__import__
    def imp(n, g=None, l=None, fromlist=(), level=0):
        if n in shims: return shims[n]
        return real_import(n, g, l, fromlist, level)
    bi['__import__'] = imp; bi.update(extra)
    mod.__dict__['__builtins__'] = bi
    sys.modules[name] = mod
    exec(compile(open(path).read(), path, 'exec'), mod.__dict__)
    return mod

pkg = types.ModuleType('lentil'); pkg.__path__ = []; sys.modules['lentil'] = pkg
pkg.extent = load('lentil.extent', '/repo/lentil/extent.py', {'numpy': np}, {'int': sint})
pkg.field = load('lentil.field', '/repo/lentil/field.py', {'numpy': np}, {'int': sint})
F = pkg.field

I = z3.IntSort(); Rl = z3.RealSort()
fre = z3.Function('f_re', I, I, Rl); fim = z3.Function('f_im', I, I, Rl)
ore = z3.Function('o_re', I, I, Rl); oim = z3.Function('o_im', I, I, Rl)
fn0, fn1, on0, on1, k0, k1 = [z3.Int(x) for x in 'fn0 fn1 on0 on1 k0 k1'.split()]
w = z3.Real('w')

class FakeField:  # Field construction needs np.asarray(data,dtype=complex): bypass for probe
    pass
def run():
    f = F.Field.__new__(F.Field)
    f.data = Lazy2D((SInt(fn0), SInt(fn1)), lambda i,j: C(fre(i,j), fim(i,j)))
    f.offset = [SInt(k0), SInt(k1)]; f.tilt=[]; f.pixelscale=None
    f.extent = pkg.extent.array_extent(f.data.shape, f.offset)
    out = Lazy2D((SInt(on0), SInt(on1)), lambda i,j: C(ore(i,j), oim(i,j)))
    try:
        res = F.insert(f, out, weight=SRealW)
        return ('ok', res, f)
    except ValueError as e:
        return ('raise', str(e), f)
SRealW = w
t=time.time()
setup=[fn0>=1, fn1>=1, on0>=1, on1>=1]
paths = explore(run, setup)
print(len(paths), 'paths', round(time.time()-t,2),'s')
i, j = z3.Int('i'), z3.Int('j')
nviol=0; nq=0
for pc, (tag, res, f), ctx in paths:
    s = z3.Solver(); s.add(*setup); s.add(*pc)
    if tag == 'raise':
        nq+=1
        if s.check()==z3.sat:
            m=s.model(); nviol+=1
            if nviol<=3: print('RAISES', res, {str(d):m[d] for d in m.decls() if d.arity()==0})
        continue
    # spec: out'[i,j] = out[i,j] + w*emb(i - on0//2, j - on1//2)
    rmin = -(fn0/2) + k0; cmin = -(fn1/2)+k1
    r = i - on0/2; c = j - on1/2
    inside = z3.And(r>=rmin, r<rmin+fn0, c>=cmin, c<cmin+fn1)
    spec_re = ore(i,j) + z3.If(inside, fre(r-rmin, c-cmin)*w, 0)
    got = res.at(i,j) if hasattr(res,'at') else res.fn(i,j)
    s.add(i>=0, i<on0, j>=0, j<on1, got.re != spec_re); nq+=1
    r_ = s.check()
    if r_ != z3.unsat:
        nviol+=1; print('VALUE MISMATCH', r_, s.model() if r_==z3.sat else '')
print('queries', nq, 'violating paths', nviol, round(time.time()-t,2),'s')

"""Design-time prototype of the symx engine (throw-away; validates DESIGN.md claims).

Pieces: path explorer, SNum/SBool scalars, SCx trig-normal-form complex values,
numpy shim over object ndarrays, loader for the unmodified lentil sources.
"""
import sys, os, time, types, builtins, itertools
sys.set_int_max_str_digits(0)
CLOSED_HINT = [False]
from fractions import Fraction
import z3
import numpy as rnp
import scipy, scipy.ndimage, scipy.integrate, scipy.optimize, scipy.signal, scipy.interpolate

# ----------------------------------------------------------------------------- context
class Ctx:
    def __init__(self, assumptions=(), trail=None):
        self.solver = z3.Solver()
        self.solver.set('timeout', 20000)
        self.assumptions = list(assumptions)
        self.solver.add(*self.assumptions)
        self.trail = trail or []
        self.pos = 0
        self.pc = []
        self.queries = 0
        self.atoms = {}        # sexpr -> atom id
        self.atom_terms = []   # id -> z3 term (turns)
        self.sqrt = {}
        self.events = []

    def check(self, *extra):
        self.queries += 1
        self.solver.push(); self.solver.add(*extra)
        r = self.solver.check(); self.solver.pop()
        return r

    def valid(self, f):
        return self.check(z3.Not(f)) == z3.unsat

    def decide(self, cond):
        cond = z3.simplify(cond)
        if z3.is_true(cond): return True
        if z3.is_false(cond): return False
        if self.pos < len(self.trail):
            d = self.trail[self.pos][0]
        else:
            can_t = self.check(cond) == z3.sat
            can_f = self.check(z3.Not(cond)) == z3.sat
            if can_t:
                self.trail.append([True, can_f])
            elif can_f:
                self.trail.append([False, False])
            else:
                raise PathInfeasible()
            d = self.trail[self.pos][0]
        self.pos += 1
        c = cond if d else z3.Not(cond)
        self.pc.append(c); self.solver.add(c)
        return d

class PathInfeasible(BaseException): pass
CUR = [None]
def ctx(): return CUR[0]

def explore(fn, assumptions=(), max_paths=100000):
    """Run fn() on every feasible path; returns list of (ctx, outcome)."""
    trail = []; out = []
    while True:
        c = Ctx(assumptions, trail); CUR[0] = c
        try:
            res = ('ok', fn())
        except PathInfeasible:
            res = ('infeasible', None)
        except Exception as e:          # lentil / shim exceptions are outcomes
            res = ('raise', e)
        out.append((c, res))
        if len(out) >= max_paths: raise RuntimeError('path budget')
        trail = c.trail[:c.pos]
        while trail and not (trail[-1][0] and trail[-1][1]): trail.pop()
        if not trail: break
        trail[-1] = [False, False]
    return out

# ----------------------------------------------------------------------------- scalars
ZERO = z3.RealVal(0); ONE = z3.RealVal(1)
def is_lit(e, v):
    if z3.is_int_value(e): return e.as_long() == v
    return z3.is_rational_value(e) and e.numerator_as_long() == v * e.denominator_as_long()
def lit_value(e):
    e = z3.simplify(e)
    if z3.is_rational_value(e): return Fraction(e.numerator_as_long(), e.denominator_as_long())
    if z3.is_int_value(e): return Fraction(e.as_long())
    return None
PYNUM = (int, float, rnp.integer, rnp.floating, rnp.bool_, bool, Fraction)
def is_pynum(x): return isinstance(x, PYNUM)

def lift(x):
    """-> (z3 term, is_int)"""
    if isinstance(x, SNum): return x.e, x.is_int
    if isinstance(x, (bool, rnp.bool_)): return z3.IntVal(int(x)), True
    if isinstance(x, (int, rnp.integer)): return z3.IntVal(int(x)), True
    if isinstance(x, Fraction): return z3.RealVal(str(x)), False
    if isinstance(x, (float, rnp.floating)):
        f = float(x)
        if f == int(f) and abs(f) < 2**53: return z3.RealVal(int(f)), False
        return z3.RealVal(repr(f)), False      # A-DEC: decimal reading
    raise TypeError(type(x))
def toreal(e, is_int):
    if not is_int: return e
    if z3.is_int_value(e): return z3.RealVal(e.as_long())
    return z3.ToReal(e)
def name_real(e):
    """Name a non-trivial real subterm by a fresh variable (keeps ToInt arguments linear)."""
    if z3.is_const(e): return e
    c = ctx(); v = z3.Real(f'nm{len(c.pc)}_{c.queries}_{len(c.assumptions)}')
    c.solver.add(v == e); c.assumptions.append(v == e); return v
def fresh_int(tag):
    c = ctx(); c.queries += 0
    n = getattr(c, '_nint', 0); c._nint = n + 1
    return z3.Int(f'{tag}{n}')

class SBool:
    def __init__(s, e): s.e = e
    def __bool__(s): return ctx().decide(s.e)
    def __and__(s, o): return SBool(z3.And(s.e, sb(o)))
    def __or__(s, o): return SBool(z3.Or(s.e, sb(o)))
    def __invert__(s): return SBool(z3.Not(s.e))
    __rand__ = __and__; __ror__ = __or__
    def __repr__(s): return f'SBool({s.e})'
def sb(o): return o.e if isinstance(o, SBool) else z3.BoolVal(bool(o))

class SNum:
    __slots__ = ('e', 'is_int', 'sqrt_of')
    def __init__(s, e, is_int=None):
        s.e = e; s.is_int = z3.is_int(e) if is_int is None else is_int; s.sqrt_of = None
    # --- arithmetic
    def _bin(s, o, f, ints_ok=True):
        if isinstance(o, (rnp.ndarray, SCx)) or isinstance(o, (complex, rnp.complexfloating)): return NotImplemented
        try: oe, oi = lift(o)
        except TypeError: return NotImplemented
        if s.is_int and oi and ints_ok: return SNum(f(s.e, oe), True)
        return SNum(f(toreal(s.e, s.is_int), toreal(oe, oi)), False)
    @staticmethod
    def _add(a, b):
        if is_lit(a, 0): return b
        if is_lit(b, 0): return a
        return a + b
    @staticmethod
    def _sub(a, b):
        if is_lit(b, 0): return a
        return a - b
    @staticmethod
    def _mul(a, b):
        if is_lit(a, 0) or is_lit(b, 0): return z3.IntVal(0) if z3.is_int(a) and z3.is_int(b) else ZERO
        if is_lit(a, 1): return b
        if is_lit(b, 1): return a
        return a * b
    def __add__(s, o): return s._bin(o, SNum._add)
    __radd__ = __add__
    def __sub__(s, o): return s._bin(o, SNum._sub)
    def __rsub__(s, o): return s._bin(o, lambda a, b: SNum._sub(b, a))
    def __mul__(s, o):
        if isinstance(o, (complex, rnp.complexfloating)): return SCx.of(s) * SCx.of(o)
        if isinstance(o, SNum) and s.sqrt_of is not None and o.sqrt_of is not None and z3.eq(s.e, o.e):
            return SNum(s.sqrt_of, False)
        return s._bin(o, SNum._mul)
    __rmul__ = __mul__
    def _div(a, b):
        if is_lit(a, 0): return ZERO
        if is_lit(b, 1): return a
        return a / b
    def __truediv__(s, o): return s._bin(o, SNum._div, ints_ok=False)
    def __rtruediv__(s, o): return s._bin(o, lambda a, b: SNum._div(b, a), ints_ok=False)
    def __floordiv__(s, o):
        oe, oi = lift(o)
        if s.is_int and oi:
            v = lit_value(oe)
            assert v is not None and v > 0, 'floordiv by symbolic/neg'
            return SNum(s.e / oe, True)
        return SNum(z3.ToInt(toreal(s.e, s.is_int) / toreal(oe, oi)), True)   # floor
    def __rfloordiv__(s, o): raise NotImplementedError
    def __mod__(s, o):
        oe, oi = lift(o); assert s.is_int and oi
        return SNum(s.e % oe, True)
    def __neg__(s): return SNum(-s.e, s.is_int)
    def __pos__(s): return s
    def __abs__(s): return SNum(z3.If(s.e >= 0, s.e, -s.e), s.is_int)
    def __pow__(s, p):
        if is_pynum(p) and int(p) == p and p >= 0:
            if p == 2 and s.sqrt_of is not None: return SNum(s.sqrt_of, False)
            r = SNum(z3.IntVal(1) if s.is_int else ONE, s.is_int)
            for _ in range(int(p)): r = r * s
            return r
        raise NotImplementedError('pow')
    # --- comparisons
    def _cmp(s, o, f):
        if isinstance(o, rnp.ndarray): return NotImplemented
        oe, oi = lift(o)
        if s.is_int and oi: return SBool(f(s.e, oe))
        return SBool(f(toreal(s.e, s.is_int), toreal(oe, oi)))
    def __lt__(s, o): return s._cmp(o, lambda a, b: a < b)
    def __le__(s, o): return s._cmp(o, lambda a, b: a <= b)
    def __gt__(s, o): return s._cmp(o, lambda a, b: a > b)
    def __ge__(s, o): return s._cmp(o, lambda a, b: a >= b)
    def __eq__(s, o):
        if o is None: return False
        return s._cmp(o, lambda a, b: a == b)
    def __ne__(s, o):
        if o is None: return True
        return s._cmp(o, lambda a, b: a != b)
    def __hash__(s):
        if s.is_int: return hash(concretize_int(s))
        v = lit_value(s.e)
        if v is None: raise TypeError('hash of symbolic real')
        return hash(v)
    # --- numpy object-loop hooks
    def conjugate(s): return s
    def sqrt(s):
        v = lit_value(s.e)
        if v is not None:
            import math
            n, d = v.numerator, v.denominator
            if v >= 0 and math.isqrt(n) ** 2 == n and math.isqrt(d) ** 2 == d:
                return SNum(z3.RealVal(str(Fraction(math.isqrt(n), math.isqrt(d)))), False)
        c = ctx(); e = toreal(s.e, s.is_int)
        k = z3.simplify(e, som=True).sexpr()
        if k not in c.sqrt:
            for k2, (q2, e2) in list(c.sqrt.items()):
                if c.valid(e == e2): c.sqrt[k] = (q2, e2); break
            else:
                q = z3.Real(f'sqrt{len(c.sqrt)}'); c.sqrt[k] = (q, e)
                c.solver.add(q >= 0, q * q == e); c.assumptions += [q >= 0, q * q == e]
        r = SNum(c.sqrt[k][0], False); r.sqrt_of = c.sqrt[k][1]
        return r
    def _round_var(s, kind):
        v = lit_value(s.e)
        import math
        if v is not None:
            r = {'floor': math.floor, 'ceil': math.ceil, 'fix': math.trunc}[kind](v)
            return SNum(z3.IntVal(r), True)
        c = ctx(); x = name_real(s.e); k = fresh_int(kind); kr = z3.ToReal(k)
        if kind == 'floor': con = z3.And(kr <= x, x < kr + 1)
        elif kind == 'ceil': con = z3.And(kr - 1 < x, x <= kr)
        else: con = z3.If(x >= 0, z3.And(kr <= x, x < kr + 1), z3.And(kr >= x, x > kr - 1))
        c.solver.add(con); c.assumptions.append(con)
        # pinned to a single value?  then use the literal (keeps later terms closed)
        if CLOSED_HINT[0]:
            c.queries += 1
            if c.solver.check() == z3.sat:
                mv = c.solver.model().eval(k, model_completion=True)
                if c.valid(k == mv): return SNum(z3.IntVal(mv.as_long()), True)
        return SNum(k, True)
    def floor(s): return s if s.is_int else s._round_var('floor')
    def ceil(s): return s if s.is_int else s._round_var('ceil')
    def fix(s): return s if s.is_int else s._round_var('fix')
    def __int__(s): return concretize_int(s)
    def __index__(s): return concretize_int(s)
    def __float__(s):
        v = lit_value(s.e)
        if v is None: raise TypeError('symbolic float()')
        return float(v)
    def __repr__(s): return f'S({z3.simplify(s.e)})'

def concretize_int(s):
    """Realise a symbolic int by solver-driven case split."""
    v = lit_value(s.e)
    if v is not None: return int(v)
    c = ctx()
    while True:
        assert c.check() == z3.sat
        c.queries += 1
        m = c.solver.model() if c.solver.check() == z3.sat else None
        val = m.eval(s.e, model_completion=True).as_long()
        if c.decide(s.e == val): return val

class _SIntMeta(type):
    def __instancecheck__(cls, o): return isinstance(o, builtins.int)
    def __subclasscheck__(cls, o): return issubclass(o, builtins.int)
class sint(builtins.int, metaclass=_SIntMeta):
    def __new__(cls, x=0, *a):
        if isinstance(x, SNum): return x.fix()
        return builtins.int(x, *a)

# ----------------------------------------------------------------------------- complex values
class SCx:
    """Sum_k (re_k + i im_k) e^{2 pi i phase_k}; key = (Fraction mod 1, frozenset((atom, coef)))."""
    __slots__ = ('t', 'sq_of')
    def __init__(s, t): s.t = t; s.sq_of = None
    @staticmethod
    def of(o):
        if isinstance(o, SCx): return o
        if isinstance(o, SNum): return SCx({K0: (toreal(o.e, o.is_int), ZERO)})
        if isinstance(o, (complex, rnp.complexfloating)):
            return SCx({K0: (lift(float(o.real))[0], lift(float(o.imag))[0])}).clean()
        e, i = lift(o); return SCx({K0: (toreal(e, i), ZERO)})
    def clean(s):
        s.t = {k: v for k, v in s.t.items() if not (is_lit(v[0], 0) and is_lit(v[1], 0))}
        return s
    def __add__(s, o):
        if isinstance(o, rnp.ndarray): return NotImplemented
        o = SCx.of(o); t = dict(s.t)
        for k, (r, i) in o.t.items():
            if k in t: t[k] = (SNum._add(t[k][0], r), SNum._add(t[k][1], i))
            else: t[k] = (r, i)
        return SCx(t)
    __radd__ = __add__
    def __neg__(s): return SCx({k: (-r, -i) for k, (r, i) in s.t.items()})
    def __sub__(s, o):
        if isinstance(o, rnp.ndarray): return NotImplemented
        return s + (-SCx.of(o))
    def __rsub__(s, o): return SCx.of(o) + (-s)
    def __mul__(s, o):
        if isinstance(o, rnp.ndarray): return NotImplemented
        o = SCx.of(o); t = {}
        M = SNum._mul
        for k1, (a, b) in s.t.items():
            for k2, (c, d) in o.t.items():
                k = kadd(k1, k2)
                re = SNum._sub(M(a, c), M(b, d)); im = SNum._add(M(a, d), M(b, c))
                if k in t: t[k] = (SNum._add(t[k][0], re), SNum._add(t[k][1], im))
                else: t[k] = (re, im)
        return SCx(t).clean()
    __rmul__ = __mul__
    def __truediv__(s, o):
        if isinstance(o, rnp.ndarray): return NotImplemented
        if isinstance(o, SNum) or is_pynum(o):
            e, i = lift(o); d = toreal(e, i)
            return SCx({k: (SNum._div(r, d), SNum._div(im, d)) for k, (r, im) in s.t.items()})
        raise NotImplementedError('complex division')
    def __pow__(s, p):
        assert p == 2; r = s * s; r.sq_of = s; return r
    def conjugate(s): return SCx({kneg(k): (r, -i if not is_lit(i, 0) else i) for k, (r, i) in s.t.items()})
    def abs2(s): return (s * s.conjugate())
    def __abs__(s):
        if s.sq_of is not None: return s.sq_of.abs2()       # |z^2| = |z|^2 (real-valued SCx)
        raise NotImplementedError('abs of complex (needs lowering)')
    def exp(s):
        # exp(i b): requires zero real part and a single phase-0 term
        assert set(s.t) <= {K0}, 'exp of oscillating value'
        re, im = s.t.get(K0, (ZERO, ZERO))
        assert is_lit(re, 0), f'exp with real part {re}'
        b1 = z3.substitute(im, (PI, ONE))     # b = PI * b1  (checked below)
        c = ctx()
        if not z3.eq(z3.simplify(im), z3.simplify(PI * b1)):
            assert c.valid(im == PI * b1), 'exp argument not a multiple of pi'
        return SCx({phase_key(b1 / 2): (ONE, ZERO)})
    def __repr__(s): return 'SCx(%d terms)' % len(s.t)

PI = z3.Real('PI')
K0 = (Fraction(0), frozenset())
def kadd(k1, k2):
    if k1 is K0: return k2
    if k2 is K0: return k1
    d = dict(k1[1])
    for a, cf in k2[1]:
        d[a] = d.get(a, 0) + cf
        if d[a] == 0: del d[a]
    k = ((k1[0] + k2[0]) % 1, frozenset(d.items()))
    return K0 if k == K0 else k
def kneg(k):
    if k is K0: return k
    return ((-k[0]) % 1, frozenset((a, -c) for a, c in k[1]))

def phase_key(turns):
    """Canonical key for a phase term (turns): rational part mod 1 + atom (semantic merge)."""
    c = ctx()
    v = lit_value(turns)
    if v is not None:
        k = (v % 1, frozenset()); return K0 if k == K0 else k
    key = z3.simplify(turns, som=True); sx = key.sexpr()
    if sx in c.atoms: return c.atoms[sx]
    res = None
    if c.valid(key == 0): res = K0
    else:
        # closed in disguise?  (e.g. lam*(1/lam)/3): take a model value and test validity
        c.queries += 1
        if CLOSED_HINT[0] and c.solver.check() == z3.sat:
            mv = c.solver.model().eval(key, model_completion=True)
            fv = lit_value(mv)
            if fv is not None and c.valid(key == mv):
                k = (fv % 1, frozenset()); res = K0 if k == K0 else k
    if res is None:
        for aid, term in enumerate(c.atom_terms):
            if c.valid(key == term): res = (Fraction(0), frozenset([(aid, 1)])); break
            if c.valid(key == -term): res = (Fraction(0), frozenset([(aid, -1)])); break
    if res is None:
        c.atom_terms.append(key); res = (Fraction(0), frozenset([(len(c.atom_terms) - 1, 1)]))
    c.atoms[sx] = res
    return res

def key_term(k):
    """z3 term (turns) denoted by a key."""
    c = ctx(); t = z3.RealVal(str(k[0]))
    for a, cf in k[1]: t = t + cf * c.atom_terms[a]
    return t

def root_axioms(L, cs):
    ax = [cs[0][0] == 1, cs[0][1] == 0]
    for k in range(1, L): ax += [cs[k][0] == cs[(L - k) % L][0], cs[k][1] == -cs[(L - k) % L][1]]
    for g in range(1, L):
        if L % g == 0: ax += [sum(cs[(g * j) % L][0] for j in range(L // g)) == 0, sum(cs[(g * j) % L][1] for j in range(L // g)) == 0]
    return ax

def lower(values):
    """Lower a list of SCx to (re, im) z3 terms with shared atoms; returns (pairs, axioms).
    Keys that are semantically equal (solver) are merged first."""
    c = ctx()
    keys = []
    for v in values:
        for k in v.t:
            if k not in keys: keys.append(k)
    # semantic merge of symbolic keys (residual)
    rep = {}
    sym = [k for k in keys if k[1]]
    for i, k in enumerate(sym):
        rep[k] = k
        for k2 in sym[:i]:
            if rep[k2] is k2 and c.valid(key_term(k) == key_term(k2)): rep[k] = k2; break
        else:
            if c.valid(key_term(k) == 0): rep[k] = K0
    for k in keys:
        if not k[1]: rep[k] = k
    reps = []
    for k in keys:
        if rep[k] not in reps: reps.append(rep[k])
    # rational keys -> roots of unity over common L
    L = 1
    for k in reps:
        if not k[1]: L = L * k[0].denominator // __import__('math').gcd(L, k[0].denominator)
    cs = {}
    ax = []
    if L > 1:
        roots = [(z3.Real(f'rc{L}_{j}'), z3.Real(f'rs{L}_{j}')) for j in range(L)]
        ax += root_axioms(L, roots)
    for n, k in enumerate(reps):
        if k == K0 or (not k[1] and k[0] == 0): cs[k] = (ONE, ZERO)
        elif not k[1]: cs[k] = roots[int(k[0] * L) % L]
        else:
            cs[k] = (z3.Real(f'ac{n}'), z3.Real(f'as{n}'))
    out = []
    for v in values:
        re, im = ZERO, ZERO
        for k, (a, b) in v.t.items():
            cc, ss = cs[rep[k]]
            re = re + a * cc - b * ss; im = im + a * ss + b * cc
        out.append((re, im))
    return out, ax

# ----------------------------------------------------------------------------- numpy shim
def is_sym(x):
    if isinstance(x, (SNum, SCx, SBool)): return True
    if isinstance(x, rnp.ndarray): return x.dtype == object
    if isinstance(x, (list, tuple)): return any(is_sym(e) for e in x)
    return False
def oarr(shape, fill=None):
    a = rnp.empty(shape, dtype=object)
    if fill is not None: a[...] = fill
    return a
def omap(f, *xs):
    xs = rnp.broadcast_arrays(*[x if isinstance(x, rnp.ndarray) else to_oarr(x) for x in xs])
    out = oarr(xs[0].shape)
    for idx in rnp.ndindex(xs[0].shape): out[idx] = f(*[x[idx] for x in xs])
    return out
def to_oarr(x):
    if isinstance(x, rnp.ndarray): return x
    if isinstance(x, (SNum, SCx, SBool)) or is_pynum(x) or isinstance(x, complex):
        a = oarr(()); a[()] = x; return a
    if isinstance(x, (list, tuple)):
        subs = [to_oarr(e) for e in x]
        a = oarr((len(subs),) + subs[0].shape)
        for i, s_ in enumerate(subs): a[i] = s_[()] if s_.shape == () else s_
        return a
    raise TypeError(type(x))

class Shim(types.ModuleType):
    def __getattr__(self, n):
        v = getattr(rnp, n)
        return v
np = Shim('numpy')
np.pi = SNum(PI, False)
np.fft = rnp.fft; np.linalg = rnp.linalg; np.random = rnp.random

def asarray(x, dtype=None):
    if is_sym(x): return to_oarr(x)
    return rnp.asarray(x, dtype=dtype)
np.asarray = asarray
def array(x, dtype=None, **kw):
    if is_sym(x): return to_oarr(x).copy()
    return rnp.array(x, dtype=dtype, **kw)
np.array = array
SYMBOLIC_MODE = [True]
def zeros(shape, dtype=float):
    if SYMBOLIC_MODE[0] and dtype in (complex, float): return oarr(shape, 0)
    return rnp.zeros(shape, dtype=dtype)
np.zeros = zeros
def broadcast_to(x, shape):
    return rnp.broadcast_to(to_oarr(x) if is_sym(x) else x, shape)
np.broadcast_to = broadcast_to
def _un(meth, real):
    def f(x, *a, **k):
        if isinstance(x, (SNum, SCx)): return getattr(x, meth)()
        if isinstance(x, rnp.ndarray) and x.dtype == object:
            return omap(lambda v: getattr(v, meth)() if isinstance(v, (SNum, SCx)) else real(float(v)), x)
        if isinstance(x, (list, tuple)) and is_sym(x): return f(to_oarr(x))
        return real(x, *a, **k)
    return f
np.sqrt = _un('sqrt', rnp.sqrt)
np.floor = _un('floor', rnp.floor); np.ceil = _un('ceil', rnp.ceil); np.fix = _un('fix', rnp.fix)
def exp(x):
    if isinstance(x, rnp.ndarray) and x.dtype == object: return omap(lambda v: SCx.of(v).exp(), x)
    if isinstance(x, (SNum, SCx)): return SCx.of(x).exp()
    return rnp.exp(x)
np.exp = exp
def abs_(x):
    if isinstance(x, rnp.ndarray) and x.dtype == object: return omap(lambda v: abs(v), x)
    return abs(x) if is_sym(x) else rnp.abs(x)
np.abs = abs_
def _out(fn):
    def g(a, b, out=None):
        r = fn(a, b)
        if out is not None: out[...] = r; return out
        return r
    return g
np.multiply = _out(lambda a, b: a * b); np.divide = _out(lambda a, b: a / b)
def conj(a, out=None):
    if isinstance(a, rnp.ndarray) and a.dtype == object: r = omap(lambda v: v.conjugate() if isinstance(v, (SNum, SCx)) else rnp.conj(v), a)
    elif isinstance(a, (SNum, SCx)): r = a.conjugate()
    else: r = rnp.conj(a)
    if out is not None: out[...] = r; return out
    return r
np.conj = conj
def dot(a, b, out=None):
    r = rnp.dot(a, b)
    if out is not None: out[...] = r; return out
    return r
np.dot = dot
def array_equal(a, b):
    if is_sym(a) or is_sym(b):
        a = to_oarr(a); b = to_oarr(b)
        if a.shape != b.shape: return False
        r = True
        for x, y in zip(a.ravel(), b.ravel()):
            e = (x == y)
            if isinstance(e, SBool): r = SBool(z3.And(sb(r), e.e))
            elif not e: return False
        return bool(r) if isinstance(r, SBool) else r
    return rnp.array_equal(a, b)
np.array_equal = array_equal
def reciprocal(x): return 1 / (to_oarr(x) if is_sym(x) else rnp.asarray(x))
np.reciprocal = reciprocal
def arange(*a, **k):
    a = [concretize_int(x) if isinstance(x, SNum) else x for x in a]
    return rnp.arange(*a, **k)
np.arange = arange
def min_(x, *a, **k):
    if is_sym(x):
        x = to_oarr(x).ravel(); m = x[0]
        for v in x[1:]:
            c = (v < m); m = _ite(c, v, m)
        return m
    return rnp.min(x, *a, **k)
np.min = min_
def _ite(c, a, b):
    if not isinstance(c, SBool): return a if c else b
    ae, ai = lift(a); be, bi = lift(b)
    if ai and bi: return SNum(z3.If(c.e, ae, be), True)
    return SNum(z3.If(c.e, toreal(ae, ai), toreal(be, bi)), False)
def round_(x, *a, **k):
    if is_sym(x): return omap(lambda v: (v + Fraction(1, 2)).floor() if isinstance(v, SNum) else rnp.round(v), to_oarr(x))
    return rnp.round(x, *a, **k)
np.round = round_

# fft by definition (concrete N) ------------------------------------------------
def _roll_idx(n, shift): return [(i - shift) % n for i in range(n)]
def fftshift(x, axes=None):
    x = to_oarr(x) if not isinstance(x, rnp.ndarray) else x
    return rnp.fft.fftshift(x, axes=axes)          # pure index permutation: works on object arrays
def ifftshift(x, axes=None):
    x = to_oarr(x) if not isinstance(x, rnp.ndarray) else x
    return rnp.fft.ifftshift(x, axes=axes)
def fft2(x, norm=None, inverse=False):
    if not (isinstance(x, rnp.ndarray) and x.dtype == object): return (rnp.fft.ifft2 if inverse else rnp.fft.fft2)(x, norm=norm)
    m, n = x.shape; sgn = 1 if inverse else -1
    Wm = oarr((m, m)); Wn = oarr((n, n))
    for a in range(m):
        for b in range(m): Wm[a, b] = SCx({(Fraction(sgn * a * b, m) % 1, frozenset()) if (sgn * a * b) % m else K0: (ONE, ZERO)})
    for a in range(n):
        for b in range(n): Wn[a, b] = SCx({(Fraction(sgn * a * b, n) % 1, frozenset()) if (sgn * a * b) % n else K0: (ONE, ZERO)})
    xc = omap(SCx.of, x)
    r = rnp.dot(rnp.dot(Wm, xc), Wn)
    if norm == 'ortho':
        s_ = SNum(z3.RealVal(m * n), False).sqrt(); r = r / s_
    elif inverse: r = r / (m * n)
    return r
class _FFT(types.ModuleType): pass
fftm = _FFT('numpy.fft'); fftm.fft2 = fft2; fftm.ifft2 = lambda x, norm=None: fft2(x, norm, inverse=True)
fftm.fftshift = fftshift; fftm.ifftshift = ifftshift; fftm.fftfreq = rnp.fft.fftfreq
np.fft = fftm

# ----------------------------------------------------------------------------- loader
class Loader:
    def __init__(self, root):
        self.root = root; self.reg = {}
        self.real_import = builtins.__import__
        self.shims = {'numpy': np}
        pkg = self._make('lentil', os.path.join(root, '__init__.py')); pkg.__path__ = [root]
        self.reg['lentil'] = pkg
        self._exec(pkg)
        self.pkg = pkg
    def _imp(self, n, g=None, l=None, fromlist=(), level=0):
        if n in self.shims: return self.shims[n]
        if n == 'lentil' or n.startswith('lentil.'):
            if n != 'lentil': self._get(n)
            if fromlist:
                if n == 'lentil':
                    for f in fromlist:
                        if not hasattr(self.reg[n], f) and os.path.exists(os.path.join(self.root, f + '.py')): self._get('lentil.' + f)
                return self.reg[n]
            return self.reg['lentil']
        return self.real_import(n, g, l, fromlist, level)
    def _make(self, name, path):
        mod = types.ModuleType(name); mod.__file__ = path; mod.__package__ = 'lentil'
        bi = dict(vars(builtins)); bi['__import__'] = self._imp; bi['int'] = sint
        mod.__dict__['__builtins__'] = bi
        return mod
    def _exec(self, mod):
        exec(compile(open(mod.__file__).read(), mod.__file__, 'exec'), mod.__dict__)
    def _get(self, n):
        if n in self.reg: return self.reg[n]
        sub = n.split('.', 1)[1]
        mod = self._make(n, os.path.join(self.root, sub + '.py')); self.reg[n] = mod
        setattr(self.reg['lentil'], sub, mod)
        self._exec(mod)
        return mod

def load(root=None):
    return Loader(root or os.environ.get('VERIF_REPO', '/repo') + '/lentil').pkg

def symreal_array(name, shape):
    a = oarr(shape)
    for idx in rnp.ndindex(shape): a[idx] = SNum(z3.Real(name + '_' + '_'.join(map(str, idx))), False)
    return a
def symcomplex_array(name, shape):
    a = oarr(shape)
    for idx in rnp.ndindex(shape):
        n = name + '_' + '_'.join(map(str, idx))
        a[idx] = SCx({K0: (z3.Real(n + 'r'), z3.Real(n + 'i'))})
    return a

# ----------------------------------------------------------------------------- equality of SCx values
def group_zero_queries(D):
    """D: SCx. Returns list of (groupkey, formula_nonzero, axioms): D==0 if every formula is unsat."""
    groups = {}
    for (r, A), (re, im) in D.t.items():
        groups.setdefault(A, {})
        g = groups[A]
        if r in g: g[r] = (g[r][0] + re, g[r][1] + im)
        else: g[r] = (re, im)
    out = []
    import math
    for A, g in groups.items():
        L = 1
        for r in g: L = L * r.denominator // math.gcd(L, r.denominator)
        if L == 1:
            re, im = g[Fraction(0)]
            out.append((A, z3.Or(re != 0, im != 0), []))
            continue
        roots = [(z3.Real(f'rc{L}_{j}'), z3.Real(f'rs{L}_{j}')) for j in range(L)]
        ax = root_axioms(L, roots)
        RE, IM = ZERO, ZERO
        for r, (re, im) in g.items():
            c_, s_ = roots[int(r * L) % L]
            RE = RE + re * c_ - im * s_; IM = IM + re * s_ + im * c_
        out.append((A, z3.Or(RE != 0, IM != 0), ax))
    return out

def is_zero(D, stats=None):
    """Solver-decided: is the SCx value identically zero under ctx assumptions+pc?"""
    c = ctx()
    for A, f, ax in group_zero_queries(D):
        t0 = time.time()
        r = c.check(f, *ax)
        if stats is not None: stats.append((len(A), str(r), time.time() - t0))
        if r != z3.unsat: return False, (A, r, c.solver)
    return True, None

# ----------------------------------------------------------------------------- residual semantic merge
def atom_part_term(A):
    c = ctx(); t = ZERO
    for a, cf in A: t = t + cf * c.atom_terms[a]
    return t

def merge_keys(D):
    """Merge keys of D whose symbolic parts are solver-equal up to a rational constant."""
    c = ctx()
    parts = []
    for (r, A) in D.t:
        if A not in parts: parts.append(A)
    rep = {}   # A -> (A_rep, rational shift) meaning e(A) = e(A_rep) * e(shift)
    reps = []
    for A in parts:
        if not A: rep[A] = (A, Fraction(0)); continue
        tA = atom_part_term(A); found = None
        for B in reps + [frozenset()]:
            d = tA - (atom_part_term(B) if B else ZERO)
            if c.valid(d == 0): found = (B, Fraction(0)); break
            fv = lit_value(z3.simplify(d, som=True))
            if fv is not None: found = (B, fv % 1); break
        if found is None: reps.append(A); found = (A, Fraction(0))
        rep[A] = found
    t = {}
    for (r, A), (re, im) in D.t.items():
        B, sh = rep[A]
        k = ((r + sh) % 1, B)
        if k == K0: k = K0
        if k in t: t[k] = (t[k][0] + re, t[k][1] + im)
        else: t[k] = (re, im)
    return SCx(t)

_is_zero_fast = is_zero
def is_zero(D, stats=None):
    ok, info = _is_zero_fast(D, stats)
    if ok: return ok, info
    D2 = merge_keys(D)
    return _is_zero_fast(D2, stats)

# ----------------------------------------------------------------------------- rational-function normaliser
def ratfun(e):
    """z3 real/int arithmetic term -> (num, den) polynomial terms (den product of denominators)."""
    if z3.is_rational_value(e) or z3.is_int_value(e) or z3.is_const(e): return e, ONE
    k = e.decl().kind(); ch = e.children()
    if k == z3.Z3_OP_TO_REAL:
        if z3.is_int_value(ch[0]): return z3.RealVal(ch[0].as_long()), ONE
        return e, ONE
    if k == z3.Z3_OP_ADD or k == z3.Z3_OP_SUB:
        n, d = ratfun(ch[0])
        for c_ in ch[1:]:
            n2, d2 = ratfun(c_)
            if z3.eq(d, d2): n = n + n2 if k == z3.Z3_OP_ADD else n - n2
            else:
                n = (n * d2 + n2 * d) if k == z3.Z3_OP_ADD else (n * d2 - n2 * d); d = d * d2
        return n, d
    if k == z3.Z3_OP_UMINUS:
        n, d = ratfun(ch[0]); return -n, d
    if k == z3.Z3_OP_MUL:
        n, d = ONE, ONE
        for c_ in ch:
            n2, d2 = ratfun(c_); n = n * n2; d = d * d2 if not is_lit(d2, 1) else d
        return n, d
    if k == z3.Z3_OP_DIV:
        n1, d1 = ratfun(ch[0]); n2, d2 = ratfun(ch[1])
        return n1 * d2, d1 * n2
    return e, ONE      # opaque (If, ToInt, ...)

def poly_zero(p):
    return is_lit(z3.simplify(p, som=True), 0)

def equal_terms(a, b):
    """Are two real terms equal for all values (denominators assumed nonzero)?  cheap first."""
    n1, d1 = ratfun(a); n2, d2 = ratfun(b)
    if poly_zero(n1 * d2 - n2 * d1): return True
    return False     # no solver fallback here: unequal pairs are the common case and cost a nonlinear sat search

# patch Ctx.valid users: phase_key / merge_keys use equal_terms
def phase_key(turns):
    c = ctx()
    v = lit_value(turns)
    if v is not None:
        k = (v % 1, frozenset()); return K0 if k == K0 else k
    key = z3.simplify(turns, som=True); sx_ = key.sexpr()
    if sx_ in c.atoms: return c.atoms[sx_]
    res = None
    n, d = ratfun(key)
    if poly_zero(n): res = K0
    else:
        nn = z3.simplify(n, som=True); dd = z3.simplify(d, som=True)
        vn, vd = lit_value(nn), lit_value(dd)
        if vn is not None and vd is not None:
            k = ((vn / vd) % 1, frozenset()); res = K0 if k == K0 else k
        elif CLOSED_HINT[0]:
            # closed in disguise: n/d constant  <=> n - q*d == 0 for the model value q
            c.queries += 1
            if c.solver.check() == z3.sat:
                mv = c.solver.model().eval(key, model_completion=True); fv = lit_value(mv)
                if fv is not None and poly_zero(n - mv * d):
                    k = (fv % 1, frozenset()); res = K0 if k == K0 else k
    if res is None:
        for aid, term in enumerate(c.atom_terms):
            if equal_terms(key, term): res = (Fraction(0), frozenset([(aid, 1)])); break
            if equal_terms(key, -term): res = (Fraction(0), frozenset([(aid, -1)])); break
    if res is None:
        c.atom_terms.append(key); res = (Fraction(0), frozenset([(len(c.atom_terms) - 1, 1)]))
    c.atoms[sx_] = res
    return res

def merge_keys(D):
    c = ctx()
    parts = []
    for (r, A) in D.t:
        if A not in parts: parts.append(A)
    rep = {}; reps = []
    for A in parts:
        if not A: rep[A] = (A, Fraction(0)); continue
        tA = atom_part_term(A); found = None
        for B in reps + [frozenset()]:
            tB = atom_part_term(B) if B else ZERO
            n, d = ratfun(tA - tB)
            if poly_zero(n): found = (B, Fraction(0)); break
            vn, vd = lit_value(z3.simplify(n, som=True)), lit_value(z3.simplify(d, som=True))
            if vn is not None and vd is not None: found = (B, (vn / vd) % 1); break
        if found is None:
            for B in reps:
                if c.valid(tA == atom_part_term(B)): found = (B, Fraction(0)); break
        if found is None: reps.append(A); found = (A, Fraction(0))
        rep[A] = found
    t = {}
    for (r, A), (re, im) in D.t.items():
        B, sh = rep[A]
        k = ((r + sh) % 1, B)
        if k == K0: k = K0
        if k in t: t[k] = (t[k][0] + re, t[k][1] + im)
        else: t[k] = (re, im)
    return SCx(t)

def is_zero(D, stats=None):
    """merge keys syntactically first; decide each group by the normaliser, then by the solver."""
    c = ctx()
    D2 = merge_keys(D)
    for A, f, ax in group_zero_queries(D2):
        if not ax:
            # f = Or(re != 0, im != 0): try the normaliser on both sides
            re = f.arg(0).arg(0); im = f.arg(1).arg(0)
            n1, _ = ratfun(re); n2, _ = ratfun(im)
            if poly_zero(n1) and poly_zero(n2):
                if stats is not None: stats.append((len(A), 'norm', 0.0))
                continue
        t0 = time.time(); r = c.check(f, *ax)
        if stats is not None: stats.append((len(A), str(r), time.time() - t0))
        if r != z3.unsat: return False, (A, r, c.solver)
    return True, None

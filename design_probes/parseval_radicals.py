import z3, time, itertools
from fractions import Fraction
S=z3.Sqrt
def root(N,k):
    k%=N; fr=Fraction(k,N)
    tab={Fraction(0):(1,0),Fraction(1,2):(-1,0),Fraction(1,4):(0,1),Fraction(3,4):(0,-1),
     Fraction(1,3):(-z3.RealVal(1)/2,S(3)/2),Fraction(2,3):(-z3.RealVal(1)/2,-S(3)/2),
     Fraction(1,6):(z3.RealVal(1)/2,S(3)/2),Fraction(5,6):(z3.RealVal(1)/2,-S(3)/2),
     Fraction(1,8):(S(2)/2,S(2)/2),Fraction(3,8):(-S(2)/2,S(2)/2),Fraction(5,8):(-S(2)/2,-S(2)/2),Fraction(7,8):(S(2)/2,-S(2)/2),
     Fraction(1,5):((S(5)-1)/4, S(10+2*S(5))/4),Fraction(4,5):((S(5)-1)/4, -S(10+2*S(5))/4),
     Fraction(2,5):((-S(5)-1)/4, S(10-2*S(5))/4),Fraction(3,5):((-S(5)-1)/4, -S(10-2*S(5))/4)}
    c,s=tab[fr]; 
    return (z3.RealVal(c) if isinstance(c,int) else c, z3.RealVal(s) if isinstance(s,int) else s)
def run(Nr,Nc,m,n):
    fr=[[z3.Real(f'r{i}{j}') for j in range(n)] for i in range(m)]
    fi=[[z3.Real(f'i{i}{j}') for j in range(n)] for i in range(m)]
    tot=0
    for u in range(Nr):
        for v in range(Nc):
            re=0; im=0
            for x in range(m):
                for y in range(n):
                    c1,s1=root(Nr,-(x-m//2)*(u-Nr//2)); c2,s2=root(Nc,-(y-n//2)*(v-Nc//2))
                    c=c1*c2-s1*s2; s=c1*s2+s1*c2
                    re=re+fr[x][y]*c-fi[x][y]*s; im=im+fr[x][y]*s+fi[x][y]*c
            tot=tot+(re*re+im*im)
    tot=tot/(Nr*Nc)
    pin=sum(fr[x][y]*fr[x][y]+fi[x][y]*fi[x][y] for x in range(m) for y in range(n))
    s=z3.Solver(); s.set('timeout',120000); s.add(tot!=pin); t=time.time(); r=s.check(); return r, round(time.time()-t,2)
for cfg in [(3,3,2,2),(3,3,3,3),(4,4,3,3),(4,4,4,4),(5,5,2,2),(5,3,3,2),(6,6,3,3),(8,8,2,2),(6,4,4,3)]:
    print(cfg, run(*cfg), flush=True)

import sys, time; sys.path.insert(0, '.')
from proto_sx import *
import proto_sx as sx
L = load()
sx.CLOSED_HINT[0] = True
def F(x): return SNum(z3.RealVal(str(Fraction(x))), False)

def energy_dft(pshape, N, os_):
    """Pupil -> image, full period (N_r,N_c) native samples * os; concrete scales so that 1/alpha = N*os."""
    m, n = pshape
    def harness():
        amp = symreal_array('a', pshape); opd = symreal_array('o', pshape)
        lam = SNum(z3.Real('lam'), False)
        mask = rnp.ones(pshape)
        # alpha = dx*du/(lam*f*os) ; choose dx=1, f=1/lam... keep lam symbolic: f := 1/(lam) => alpha = du/os ; du = 1/N
        c = ctx(); c.solver.add(lam.e > 0); c.assumptions.append(lam.e > 0)
        p = L.Pupil(amplitude=amp, opd=opd, mask=mask, pixelscale=(F(1), F(1)), focal_length=1 / lam)
        w = p * L.Wavefront(lam)
        wo = L.propagate_dft(w, (F(Fraction(1, N[0])), F(Fraction(1, N[1]))), shape=N, oversample=os_)
        I = wo.intensity
        tot = SCx.of(0)
        for v in I.ravel(): tot = tot + SCx.of(v)
        pin = SCx.of(0)
        for a in amp.ravel(): pin = pin + SCx.of(a * a)
        return tot - pin
    res = explore(harness)
    assert len(res) == 1, len(res)
    c, (tag, D) = res[0]
    if tag != 'ok': raise D
    sx.CUR[0] = c
    st = []
    ok, info = is_zero(D, st)
    return ok, len(D.t), len(st), c.queries

for cfg in [((2,2),(2,2),1), ((2,2),(3,3),1), ((2,3),(3,4),1), ((3,3),(3,3),1), ((2,2),(2,2),2), ((3,2),(4,3),2), ((3,3),(5,4),1)]:
    t = time.time()
    print(cfg, energy_dft(*cfg), round(time.time() - t, 1), 's', flush=True)

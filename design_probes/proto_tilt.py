import sys, time; sys.path.insert(0, '.')
from proto_sx import *
import proto_sx as sx
L = load()
def F(x): return SNum(z3.RealVal(str(Fraction(x))), False)
def R(n): return SNum(z3.Real(n), False)

def tilt_vs_ramp(pshape, oshape, os_, square_du=True, which='x'):
    m, n = pshape
    stats = dict(paths=0, pixels=0, bad=0, skipped=0, infeasible=0, raised=0)
    cex = []
    def harness():
        c = ctx()
        amp = symreal_array('a', pshape)
        lam, f, th = R('lam'), R('f'), R('th')
        dx0, dx1, du0 = R('dx0'), R('dx1'), R('du0')
        du1 = du0 if square_du else R('du1')
        pos = [lam.e > 0, f.e > 0, dx0.e > 0, dx1.e > 0, du0.e > 0, du1.e > 0]
        c.solver.add(*pos); c.assumptions += pos
        rr, cc = rnp.meshgrid(rnp.arange(m) - m // 2, rnp.arange(n) - n // 2, indexing='ij')
        if which == 'x': ramp = omap(lambda r: th * int(r) * dx0, rr); tkw = dict(x=th, y=0)
        else: ramp = omap(lambda q: th * (-int(q)) * dx1, cc); tkw = dict(x=0, y=th)
        mask = rnp.ones(pshape)
        pr = L.Pupil(amplitude=amp, opd=ramp, mask=mask, pixelscale=(dx0, dx1), focal_length=f)
        wr = L.propagate_dft(pr * L.Wavefront(lam), (du0, du1), shape=oshape, oversample=os_)
        pt = L.Pupil(amplitude=amp, mask=mask, pixelscale=(dx0, dx1), focal_length=f)
        wt0 = L.Tilt(**tkw) * (pt * L.Wavefront(lam))
        wt = L.propagate_dft(wt0, (du0, du1), shape=oshape, oversample=os_)
        return wr.field, wt.field
    t0 = time.time()
    res = explore(harness)
    for c, (tag, val) in res:
        stats['paths'] += 1
        if tag == 'infeasible': stats['infeasible'] += 1; continue
        if tag == 'raise':
            stats['raised'] += 1; cex.append(repr(val)[:200]); continue
        sx.CUR[0] = c
        A, B = val
        for idx in rnp.ndindex(A.shape):
            b = B[idx]
            if not isinstance(b, (SNum, SCx)): stats['skipped'] += 1; continue   # not evaluated by tilt rep
            stats['pixels'] += 1
            ok, info = is_zero(SCx.of(A[idx]) - SCx.of(b))
            if not ok:
                stats['bad'] += 1
                if len(cex) < 2:
                    A_, r_, sol = info
                    cex.append((idx, str(r_)))
    stats['time'] = round(time.time() - t0, 1)
    return stats, cex

for cfg in [((2,2),(2,2),1,True,"x"), ((2,2),(2,2),1,True,"y"), ((2,2),(2,2),1,False,"x"), ((2,2),(2,2),2,True,"x"), ((2,2),(3,3),1,True,"y")]:
    try: print(cfg, tilt_vs_ramp(*cfg), flush=True)
    except Exception as e:
        import traceback; traceback.print_exc(); break

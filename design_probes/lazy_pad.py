import sys, time, z3, builtins, types
sys.path.insert(0,'.')
from lazy_core import *

class IVec:
    def __init__(self, v): self.v = list(v)
    def __getitem__(self, i): return self.v[i]
    def __len__(self): return len(self.v)
    def __iter__(self): return iter(self.v)
    def _b(self, o, f):
        if isinstance(o, (IVec, list, tuple)): return IVec(f(a,b) for a,b in zip(self.v,list(o)))
        return IVec(f(a,o) for a in self.v)
    def __floordiv__(s,o): return s._b(o, lambda a,b:a//b)
    def __add__(s,o): return s._b(o, lambda a,b:a+b)
    def __sub__(s,o): return s._b(o, lambda a,b:a-b)

def norm_slice(s, n):
    n = z(n)
    def fix(v, default):
        if v is None: return default
        v = z(v)
        v = z3.If(v < 0, v + n, v)
        return z3.If(v < 0, 0, z3.If(v > n, n, v))
    a = fix(s.start, z3.IntVal(0)); b = fix(s.stop, n)
    return a, z3.If(b < a, a, b)

class C:
    def __init__(s, re, im): s.re, s.im = re, im

class Lazy2D:
    def __init__(self, shape, fn): self.shape = tuple(shape); self.fn = fn
    def _view(self, key):
        if key is Ellipsis: return (z3.IntVal(0), z(self.shape[0])), (z3.IntVal(0), z(self.shape[1]))
        r, c = key
        return norm_slice(r, self.shape[0]), norm_slice(c, self.shape[1])
    def __getitem__(self, key):
        (r0,r1),(c0,c1) = self._view(key); fn = self.fn
        return Lazy2D((SInt(r1-r0), SInt(c1-c0)), lambda i,j: fn(i+r0, j+c0))
    def __setitem__(self, key, val):
        (r0,r1),(c0,c1) = self._view(key)
        ok = z3.And(z(val.shape[0]) == r1-r0, z(val.shape[1]) == c1-c0)
        if not SBool(ok): raise ValueError('operands could not be broadcast together')
        old = self.fn; vf = val.fn
        def fn(i,j):
            inside = z3.And(i>=r0, i<r1, j>=c0, j<c1)
            a = old(i,j); b = vf(i-r0, j-c0)
            return C(z3.If(inside, b.re, a.re), z3.If(inside, b.im, a.im))
        self.fn = fn
    def __iadd__(self, o):
        ok = z3.And(z(o.shape[0]) == z(self.shape[0]), z(o.shape[1]) == z(self.shape[1]))
        if not SBool(ok): raise ValueError('operands could not be broadcast together')
        f,g = self.fn, o.fn
        return Lazy2D(self.shape, lambda i,j: C(f(i,j).re+g(i,j).re, f(i,j).im+g(i,j).im))
    def __mul__(self, w):
        f=self.fn; w=z3.RealVal(w) if isinstance(w,(int,float)) else w
        return Lazy2D(self.shape, lambda i,j: C(f(i,j).re*w, f(i,j).im*w))

np = types.ModuleType('numpy')
np.asarray = lambda x, dtype=None: IVec(x) if isinstance(x,(tuple,list)) else x
def array_equal(a, b):
    a = list(a); b = list(b)
    if len(a) != len(b): return False
    return bool(SBool(z3.And(*[z(x) == z(y) for x,y in zip(a,b)])))
np.array_equal = array_equal
def sint(x): return x if isinstance(x, SInt) else builtins.int(x)

def load(name, path, shims, extra):
    mod = types.ModuleType(name); mod.__file__ = path
    bi = dict(vars(builtins)); real_import = builtins.__import__
    def imp(n, g=None, l=None, fromlist=(), level=0):
        if n in shims: return shims[n]
        return real_import(n, g, l, fromlist, level)
    bi['__import__'] = imp; bi.update(extra)
    mod.__dict__['__builtins__'] = bi
    sys.modules[name] = mod
    exec(compile(open(path).read(), path, 'exec'), mod.__dict__)
    return mod


# ---- pad probe ------------------------------------------------------------
def zeros(shape, dtype=None):
    return Lazy2D((shape[0], shape[1]), lambda i,j: C(z3.RealVal(0), z3.RealVal(0)))
np.zeros = zeros
Lazy2D.ndim = 2
Lazy2D.dtype = None
def _set(self, key, val):
    (r0,r1),(c0,c1) = self._view(key)
    ok = z3.And(z(val.shape[0]) == r1-r0, z(val.shape[1]) == c1-c0)
    if not SBool(ok): raise ValueError('could not broadcast input array')
    old = self.fn; vf = val.fn
    def fn(i,j):
        inside = z3.And(i>=r0, i<r1, j>=c0, j<c1)
        a = old(i,j); b = vf(i-r0, j-c0)
        return C(z3.If(inside, b.re, a.re), z3.If(inside, b.im, a.im))
    self.fn = fn
Lazy2D.__setitem__ = _set
pkg = types.ModuleType('lentil'); sys.modules['lentil'] = pkg
util = load('lentil.util', '/repo/lentil/util.py', {'numpy': np, 'lentil': pkg}, {'int': sint})
I = z3.IntSort(); Rl = z3.RealSort()
fre = z3.Function('f_re', I, I, Rl)
n0, n1, N0, N1 = z3.Ints('n0 n1 N0 N1')
def run():
    a = Lazy2D((SInt(n0), SInt(n1)), lambda i,j: C(fre(i,j), z3.RealVal(0)))
    try: return ('ok', util.pad(a, (SInt(N0), SInt(N1))))
    except ValueError as e: return ('raise', str(e))
setup=[n0>=1, n1>=1, N0>=1, N1>=1]
t=time.time(); paths = explore(run, setup)
i, j = z3.Ints('i j'); bad=0
for pc, (tag, res), ctx in paths:
    s = z3.Solver(); s.add(*setup); s.add(*pc)
    if tag == 'raise':
        if s.check()==z3.sat: bad+=1; print('RAISES', res, s.model())
        continue
    # spec: origin floor(n/2) -> floor(N/2)
    si = i - N0/2 + n0/2; sj = j - N1/2 + n1/2
    inside = z3.And(si>=0, si<n0, sj>=0, sj<n1)
    spec = z3.If(inside, fre(si, sj), 0)
    s.add(i>=0, i<N0, j>=0, j<N1, res.fn(i,j).re != spec)
    if s.check() != z3.unsat:
        bad+=1
        m=s.model()
        if bad<=3: print('MISPLACED', {str(d):m[d] for d in m.decls() if d.arity()==0})
print(len(paths),'paths', bad,'violating', round(time.time()-t,2),'s')

import sys; sys.path.insert(0,'.')
exec(open('proto_tilt.py').read().split("for cfg in")[0])
cfg = eval(sys.argv[1])
print(cfg, tilt_vs_ramp(*cfg), flush=True)

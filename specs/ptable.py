"""C08 oracle: the documented tables, parsed at run time from the repository's RST documentation."""
import os, re


def _repo():
    return os.environ.get('VERIF_REPO', '/repo')


def mul_table():
    """{(wavefront ptype, plane ptype): result ptype or None (= Not allowed)} from wavefront.rst 'Multiplication rules'."""
    txt = open(os.path.join(_repo(), 'docs/user/fundamentals/wavefront.rst')).read()
    sec = txt[txt.index('Multiplication rules'):]
    rows = [l for l in sec.splitlines() if l.startswith('|')]
    header = None
    table = {}
    for l in rows:
        cells = [c.strip() for c in l.strip().strip('|').split('|')]
        names = [re.sub(r'[`\s]', '', c) for c in cells]
        if header is None:
            if names[1:] and all(n in ('none', 'pupil', 'image') for n in names[1:] if n) and len([n for n in names[1:] if n]) == 3:
                header = [n for n in names[1:]]
            continue
        if names[0] in ('none', 'pupil', 'image', 'tilt', 'transform') and len(names) == 4:
            for w, res in zip(header, names[1:]):
                table[(w, names[0])] = None if res.lower().startswith('notallowed') else res
        if len(table) == 15:
            break
    if len(table) != 15:
        raise RuntimeError(f'could not parse the multiplication table ({len(table)} cells)')
    return table


def class_ptypes():
    """{class name: ptype} from planes.rst"""
    txt = open(os.path.join(_repo(), 'docs/user/fundamentals/planes.rst')).read()
    out = {}
    for l in txt.splitlines():
        m = re.match(r':class:`(\w+)`\s+(.*)', l.strip())
        if m and m.group(1) in ('none', 'pupil', 'image', 'tilt', 'transform'):
            for cls in re.findall(r'~lentil\.(\w+)', m.group(2)):
                out[cls] = m.group(1)
    if len(out) < 7:
        raise RuntimeError('could not parse the class table')
    return out


def propagate(ptype):
    """far-field propagation: only from pupil or image, turns one into the other (statement of C08)"""
    return {'pupil': 'image', 'image': 'pupil'}.get(ptype)

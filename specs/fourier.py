"""Reference semantics for C01: the defining Fourier sum, transcribed from the property statement."""


def dft2_spec(W, f, m, n, M, N, ar, ac, sr, sc, orow, ocol, unitary):
    """F[u,v] = kappa * sum_{x,y} f[x,y] e(-ar*X*U - ac*Y*V); X = x - floor(m/2) + offset, U = u - floor(M/2) - shift."""
    kappa = W.sqrt(W.abs(ar * ac)) if unitary else 1
    out = [[None] * N for _ in range(M)]
    for u in range(M):
        U = (u - M // 2) - sr
        for v in range(N):
            V = (v - N // 2) - sc
            acc = 0
            for x in range(m):
                X = (x - m // 2) + orow
                for y in range(n):
                    Y = (y - n // 2) + ocol
                    acc = acc + f[x, y] * W.e(-(ar * X * U) - (ac * Y * V))
            out[u][v] = acc * kappa
    return out

"""Reference semantics for the propagation properties (C02, C03, C04, C05, C07, C09), transcribed from the statements.
Conventions: the origin of every array is index floor(n/2) on each axis; e(t) = exp(2 pi i t)."""


def centre_window(S, P):
    """inclusive index range of a window of P samples centred (origin convention) in an axis of S samples."""
    lo = S // 2 - P // 2
    return lo, lo + P - 1


def bbox(mask):
    """inclusive (rmin, rmax, cmin, cmax) of mask > 0, python lists; None if empty."""
    rows = [i for i, r in enumerate(mask) if any(v > 0 for v in r)]
    cols = [j for j in range(len(mask[0])) if any(r[j] > 0 for r in mask)]
    if not rows:
        return None
    return rows[0], rows[-1], cols[0], cols[-1]


def alpha(dx, du, lam, f, os):
    return (dx[0] * du[0]) / (lam * f * os), (dx[1] * du[1]) / (lam * f * os)


def fraunhofer(W, samples, nshape, lam, f, dx, du, os, out_shape, inside, shift=(0, 0)):
    """samples: list of ((r, c), complex value) of the input-plane field on an array of shape nshape.
    Returns out_shape nested list: [inside(i,j)] * sqrt(ar*ac) * sum_x v_x e(-ar*x_r*(u_i - shift_r) - ac*x_c*(u_j - shift_c))."""
    ar, ac = alpha(dx, du, lam, f, os)
    kappa = W.sqrt(ar * ac)
    out = [[0] * out_shape[1] for _ in range(out_shape[0])]
    for i in range(out_shape[0]):
        for j in range(out_shape[1]):
            if not inside(i, j):
                continue
            ui = (i - out_shape[0] // 2) - shift[0]
            uj = (j - out_shape[1] // 2) - shift[1]
            acc = 0
            for (r, c), v in samples:
                xr = r - nshape[0] // 2
                xc = c - nshape[1] // 2
                acc = acc + v * W.e(-(ar * xr * ui) - (ac * xc * uj))
            out[i][j] = acc * kappa
    return out


def phasor(W, amp, opd, lam):
    """amplitude * exp(+2 pi i opd / lambda)"""
    return amp * W.e(opd / lam)

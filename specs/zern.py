"""Reference semantics for C11/C12: Noll's ordering and the textbook Zernike polynomials."""
from fractions import Fraction
from math import comb

# first 21 entries of Noll's published table: j -> (n, m)  (even j: cosine, m > 0; odd j: sine, m < 0)
NOLL = {1: (0, 0), 2: (1, 1), 3: (1, -1), 4: (2, 0), 5: (2, -2), 6: (2, 2), 7: (3, -1), 8: (3, 1), 9: (3, -3), 10: (3, 3),
        11: (4, 0), 12: (4, 2), 13: (4, -2), 14: (4, 4), 15: (4, -4), 16: (5, 1), 17: (5, -1), 18: (5, 3), 19: (5, -3),
        20: (5, 5), 21: (5, -5)}


def noll(j):
    """(n, m) for a concrete Noll index by the closed form used as specification."""
    n = 0
    while (n + 1) * (n + 2) // 2 < j:
        n += 1
    t = j - n * (n + 1) // 2 - 1
    am = (n % 2) + 2 * ((t + 1 - (n % 2)) // 2)
    m = 0 if am == 0 else (am if j % 2 == 0 else -am)
    return n, m


def radial_coeffs(n, m):
    """{power: integer coefficient} of R_n^|m| in the binomial form sum_k (-1)^k C(n-k, k) C(n-2k, (n-m)/2-k) rho^(n-2k)."""
    m = abs(m)
    if (n - m) % 2:
        return {}
    out = {}
    for k in range((n - m) // 2 + 1):
        out[n - 2 * k] = (-1) ** k * comb(n - k, k) * comb(n - 2 * k, (n - m) // 2 - k)
    return out


def radial(n, m, rho):
    acc = 0
    for pw, c in radial_coeffs(n, m).items():
        acc = acc + c * rho ** pw
    return acc

"""Reference semantics for C06: a field is its data embedded at its offset in an infinite plane of zeros
(a 0-d field is an infinite constant).  Extents follow the floor(n/2) origin convention."""


def extent(shape, offset):
    if len(shape) < 2:
        return None                      # infinite constant
    rmin = -(shape[0] // 2) + offset[0]
    cmin = -(shape[1] // 2) + offset[1]
    return rmin, rmin + shape[0] - 1, cmin, cmin + shape[1] - 1


def emb(W, data, offset, r, c):
    """value of the embedding of `data` (2-D array or 0-d) at plane coordinates (r, c)"""
    shape = getattr(data, 'shape', ())
    if len(shape) < 2:
        return data[()] if hasattr(data, '__getitem__') else data
    rmin, rmax, cmin, cmax = extent(shape, offset)
    acc = 0
    for a in range(shape[0]):
        for b in range(shape[1]):
            cond = (r == rmin + a) & (c == cmin + b) if W.sym else (r == rmin + a and c == cmin + b)
            acc = acc + W.ite(cond, data[a, b], 0)
    return acc


def inside(W, ext, r, c):
    rmin, rmax, cmin, cmax = ext
    if W.sym:
        return (r >= rmin) & (r <= rmax) & (c >= cmin) & (c <= cmax)
    return rmin <= r <= rmax and cmin <= c <= cmax

#!/usr/bin/env python3
"""Second-solver audit of the queries behind a check.

usage: tools/crosscheck.py C05 [C07 ...] [--every N] [--limit M] [--tlimit S]

Runs `./check <ID> --no-evidence` with SYMX_CROSS_DIR set, so that every Nth query z3 (Python API, 4.x/5.x wheel) decided is
written out as SMT-LIB2 together with its verdict, then re-decides each file with the cvc5 binary and the system z3 binary
(a different z3 version from the wheel) under a time limit.  A verdict that CONTRADICTS the recorded one (sat vs unsat) is
a disagreement and makes the tool exit 1; `unknown`/timeout of the second solver is reported as inconclusive for that query
and is not a disagreement.  Results are appended to /verif/evidence/cross_solver.json (one record per property)."""
import json, os, shutil, subprocess, sys, tempfile, time, glob

HERE = os.path.dirname(os.path.dirname(os.path.abspath(__file__)))


def decide(cmd, tl):
    try:
        r = subprocess.run(cmd, capture_output=True, text=True, timeout=tl + 10)
    except subprocess.TimeoutExpired:
        return 'timeout'
    out = (r.stdout + r.stderr).strip().splitlines()
    if any('interrupted by timeout' in l or l.strip() == 'timeout' for l in out):
        return 'timeout'
    if any(l.startswith('(error') for l in out):
        return 'error'
    for l in out:
        if l.strip() in ('sat', 'unsat', 'unknown'):
            return l.strip()
    return 'error'


def main():
    a = sys.argv[1:]
    every, limit, tl = 25, 60, 20
    ids = []
    while a:
        x = a.pop(0)
        if x == '--every':
            every = int(a.pop(0))
        elif x == '--limit':
            limit = int(a.pop(0))
        elif x == '--tlimit':
            tl = int(a.pop(0))
        else:
            ids.append(x)
    outp = os.path.join(HERE, 'evidence', 'cross_solver.json')
    try:
        allrec = json.load(open(outp))
    except Exception:
        allrec = {}
    bad = 0
    for pid in ids:
        d = tempfile.mkdtemp(prefix='symx_cross_')
        try:
            env = dict(os.environ, SYMX_CROSS_DIR=d, SYMX_CROSS_EVERY=str(every))
            t0 = time.time()
            subprocess.run([os.path.join(HERE, 'check'), pid, '--no-evidence'], env=env, capture_output=True, text=True)
            files = sorted(glob.glob(os.path.join(d, '*.smt2')))
            step = max(1, len(files) // limit)
            files = files[::step][:limit]
            rec = {'property': pid, 'dumped_every': every, 'queries_audited': len(files), 'tlimit_s': tl,
                   'cvc5': {}, 'z3_binary': {}, 'disagreements': []}
            for f in files:
                want = f.rsplit('_', 1)[1][:-5]
                for name, cmd in (('cvc5', ['cvc5', f'--tlimit={tl * 1000}', f]),
                                  ('z3_binary', ['/usr/bin/z3', f'-T:{tl}', f])):
                    got = decide(cmd, tl)
                    key = 'agree' if got == want else ('DISAGREE' if got in ('sat', 'unsat') else got)
                    rec[name][key] = rec[name].get(key, 0) + 1
                    if key == 'DISAGREE':
                        keep = os.path.join(HERE, 'replays', os.path.basename(f))
                        os.makedirs(os.path.dirname(keep), exist_ok=True)
                        shutil.copy(f, keep)
                        rec['disagreements'].append({'solver': name, 'recorded': want, 'got': got, 'file': keep})
                        bad += 1
            rec['wall_s'] = round(time.time() - t0, 1)
            allrec[pid] = rec
            print(json.dumps(rec))
        finally:
            shutil.rmtree(d, ignore_errors=True)
    json.dump(allrec, open(outp, 'w'), indent=1, sort_keys=True)
    return 1 if bad else 0


if __name__ == '__main__':
    sys.exit(main())

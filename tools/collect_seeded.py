#!/usr/bin/env python3
"""Copy confirmed seeded changes (from the sub-agents' output directories) into /verif/seeded/<property>-m<k>/ with a meta.json
built from tools/eval_seeded.py's result; regenerates seeded/README.md."""
import json, os, shutil, sys, glob

V = os.path.dirname(os.path.dirname(os.path.abspath(__file__)))
SRC = sys.argv[1] if len(sys.argv) > 1 else '/tmp/wt'
rows = []
for res in sorted(glob.glob(os.path.join(SRC, 'results', 'C*_m*.json'))):
    try:
        r = json.load(open(res))
    except Exception:
        continue
    pid = r['property']
    name = os.path.basename(res)[:-5].replace('_', '-')
    src = r['dir']
    confirmed = r.get('demo_without_patch') == 0 and r.get('demo_with_patch') == 1 and r.get('tests_pass')
    if not confirmed:
        rows.append((name, pid, 'NOT KEPT (demonstration or tests not confirmed)', '', ''))
        continue
    dst = os.path.join(V, 'seeded', name)
    os.makedirs(dst, exist_ok=True)
    for f in ('patch.diff', 'demo.py', 'notes.md'):
        if os.path.exists(os.path.join(src, f)):
            shutil.copy(os.path.join(src, f), os.path.join(dst, f))
    notes = open(os.path.join(src, 'notes.md')).read() if os.path.exists(os.path.join(src, 'notes.md')) else ''
    chk = r.get(f'check_{pid}', {})
    meta = {
        'property': pid,
        'origin': 'independent sub-agent given only the property text and a scratch worktree of /repo (nothing from /verif)',
        'needs_to_manifest': notes.strip().split('\n\n')[1][:600] if '\n\n' in notes.strip() else notes[:600],
        'confirmed_by': {'applies_with': 'git apply patch.diff (scratch worktree of /repo at HEAD)', 'test_suite_with_patch': r.get('tests'),
                         'demo_exit_without_patch': r.get('demo_without_patch'), 'demo_exit_with_patch': r.get('demo_with_patch')},
        'what_was_run': f'tools/eval_seeded.py <dir> {pid}: ./check {pid} --tier quick with VERIF_REPO=<scratch worktree with the patch applied>',
        'check_result': {'exit': chk.get('exit'), 'wall_s': chk.get('wall_s'), 'first_violation': chk.get('first'), 'summary': chk.get('summary')},
        'detected': chk.get('exit') == 1,
        'other_checks': {k[6:]: v.get('exit') for k, v in r.items() if k.startswith('check_') and k != f'check_{pid}'},
    }
    json.dump(meta, open(os.path.join(dst, 'meta.json'), 'w'), indent=1)
    rows.append((name, pid, 'detected (exit 1)' if meta['detected'] else f"NOT detected (exit {chk.get('exit')})", chk.get('first', '')[:140], ''))
with open(os.path.join(V, 'seeded', 'README.md'), 'w') as f:
    f.write('# Seeded changes\n\nEach directory holds a change to andykee/lentil written by an independent sub-agent that saw only the property text '
            '(patch.diff), its demonstration (demo.py exits 1 with the patch, 0 without), the agent\'s notes and meta.json (what it needs to manifest, what was run, '
            'what the property\'s check said). None of these patches is ever committed to /repo. Re-run one with\n\n'
            '    tools/eval_seeded.py seeded/<name> <property>\n\n| change | property | quick check | first violation reported |\n|---|---|---|---|\n')
    for name, pid, verdict, first, _ in rows:
        f.write(f'| {name} | {pid} | {verdict} | {first.replace("|", "/")} |\n')
print(len(rows), 'rows')

#!/usr/bin/env python3
"""Copy confirmed seeded changes (from the sub-agents' output directories) into /verif/seeded/<property>-<round>m<k>/ with a
meta.json built from tools/eval_seeded.py's result, then regenerate seeded/README.md from all meta.json files.
usage: tools/collect_seeded.py [/tmp/wt]   (expects <src>/results/Cxx_[rN]mK.json, optionally first_Cxx_[rN]mK.json = evaluation
before the checks were strengthened)"""
import json, os, shutil, sys, glob

V = os.path.dirname(os.path.dirname(os.path.abspath(__file__)))
SRC = sys.argv[1] if len(sys.argv) > 1 else '/tmp/wt'
for res in sorted(glob.glob(os.path.join(SRC, 'results', 'C[0-9][0-9]_*m[0-9].json'))):
    try:
        r = json.load(open(res))
    except Exception:
        continue
    pid = r['property']
    base = os.path.basename(res)[:-5]
    name = base.replace('_', '-')
    src = r['dir']
    confirmed = r.get('demo_without_patch') == 0 and r.get('demo_with_patch') == 1 and r.get('tests_pass')
    if not confirmed:
        continue
    dst = os.path.join(V, 'seeded', name)
    os.makedirs(dst, exist_ok=True)
    for f in ('patch.diff', 'demo.py', 'notes.md'):
        if os.path.exists(os.path.join(src, f)) and os.path.abspath(src) != os.path.abspath(dst):
            shutil.copy(os.path.join(src, f), os.path.join(dst, f))
    notes = open(os.path.join(dst, 'notes.md')).read() if os.path.exists(os.path.join(dst, 'notes.md')) else ''
    chk = r.get(f'check_{pid}', {})
    first = None
    fp = os.path.join(SRC, 'results', 'first_' + base + '.json')
    if os.path.exists(fp):
        try:
            first = json.load(open(fp)).get(f'check_{pid}', {}).get('exit')
        except Exception:
            first = None
    meta = {
        'property': pid,
        'origin': 'independent sub-agent given only the property text and a scratch worktree of /repo (nothing from /verif)',
        'needs_to_manifest': ' '.join(notes.strip().split())[:700],
        'confirmed_by': {'applies_with': 'git apply patch.diff (scratch worktree of /repo at HEAD)', 'test_suite_with_patch': r.get('tests'),
                         'demo_exit_without_patch': r.get('demo_without_patch'), 'demo_exit_with_patch': r.get('demo_with_patch')},
        'what_was_run': f'tools/eval_seeded.py <dir> {pid}: ./check {pid} --tier quick with VERIF_REPO=<scratch worktree with the patch applied>',
        'check_result': {'exit': chk.get('exit'), 'wall_s': chk.get('wall_s'), 'first_violation': chk.get('first'), 'summary': chk.get('summary')},
        'detected': chk.get('exit') == 1,
    }
    if first is not None:
        meta['exit_before_strengthening'] = first
    json.dump(meta, open(os.path.join(dst, 'meta.json'), 'w'), indent=1)
rows = []
for mf in sorted(glob.glob(os.path.join(V, 'seeded', '*', 'meta.json'))):
    m = json.load(open(mf))
    name = os.path.basename(os.path.dirname(mf))
    c = m['check_result']
    verdict = 'detected (exit 1)' if m['detected'] else f"NOT detected (exit {c.get('exit')})"
    if 'exit_before_strengthening' in m and m['exit_before_strengthening'] != 1:
        verdict += f" [first evaluation: exit {m['exit_before_strengthening']}]"
    rows.append((name, m['property'], verdict, (c.get('first_violation') or '')[:140]))
with open(os.path.join(V, 'seeded', 'README.md'), 'w') as f:
    f.write('# Seeded changes\n\nEach directory holds a change to andykee/lentil written by an independent sub-agent that saw only the property text '
            '(patch.diff), its demonstration (demo.py exits 1 with the patch, 0 without), the agent\'s notes and meta.json (what it needs to manifest, what was run, '
            'what the property\'s check said). None of these patches is ever committed to /repo. Re-run one with\n\n'
            '    tools/eval_seeded.py seeded/<name> <property>\n\n'
            f'{sum(1 for r in rows if r[2].startswith("detected"))} of {len(rows)} are reported as violations by the quick check of their property.\n\n'
            '| change | property | quick check | first violation reported |\n|---|---|---|---|\n')
    for name, pid, verdict, first in rows:
        f.write(f'| {name} | {pid} | {verdict} | {first.replace("|", "/")} |\n')
print(len(rows), 'rows,', sum(1 for r in rows if r[2].startswith('detected')), 'detected')

#!/usr/bin/env python3
"""Evaluate a seeded change (mutant) against the checks.

usage: tools/eval_seeded.py <dir with patch.diff and demo.py> <property id> [--tier quick] [--keep]

1. a scratch git worktree of /repo (outside /repo and /verif) at HEAD;
2. without the patch: demo.py must exit 0; with the patch: the 146-test suite must pass and demo.py must exit 1;
3. the property's check is run with VERIF_REPO=<scratch> and must exit 1 with a VIOLATION line;
4. the scratch worktree is removed.
Prints one JSON line with the outcome."""
import json, os, shutil, subprocess, sys, tempfile, time

V = os.path.dirname(os.path.dirname(os.path.abspath(__file__)))


def sh(cmd, cwd=None, env=None, timeout=1800):
    p = subprocess.run(cmd, shell=True, cwd=cwd, env=env, stdout=subprocess.PIPE, stderr=subprocess.STDOUT, text=True, timeout=timeout)
    return p.returncode, p.stdout


def main():
    d, pid = sys.argv[1], sys.argv[2]
    tier = sys.argv[sys.argv.index('--tier') + 1] if '--tier' in sys.argv else 'quick'
    others = sys.argv[sys.argv.index('--also') + 1].split(',') if '--also' in sys.argv else []
    patch = os.path.abspath(os.path.join(d, 'patch.diff'))
    demo = os.path.abspath(os.path.join(d, 'demo.py'))
    wt = tempfile.mkdtemp(prefix='lentil_eval_', dir='/tmp')
    os.rmdir(wt)
    out = {'dir': d, 'property': pid}
    try:
        rc, o = sh(f'git -C /repo worktree add -q --detach {wt} HEAD')
        if rc:
            out['error'] = 'worktree: ' + o[-300:]
            return out
        rc0, o0 = sh(f'/venv/bin/python {demo}', cwd=wt, timeout=600)
        out['demo_without_patch'] = rc0
        rc, o = sh(f'git apply {patch}', cwd=wt)
        if rc:
            out['error'] = 'patch does not apply: ' + o[-300:]
            return out
        rc1, o1 = sh(f'/venv/bin/python {demo}', cwd=wt, timeout=600)
        out['demo_with_patch'] = rc1
        out['demo_output'] = o1[-400:]
        rct, ot = sh('/venv/bin/python -m pytest -q -p no:cacheprovider -x 2>&1 | tail -3', cwd=wt, timeout=900)
        out['tests'] = ot.strip().splitlines()[-1] if ot.strip() else ''
        out['tests_pass'] = ' passed' in out['tests'] and 'failed' not in out['tests']
        if not out['tests_pass']:
            rct, ot = sh('/venv/bin/python -m pytest -q -p no:cacheprovider 2>&1 | tail -3', cwd=wt, timeout=900)
            out['tests'] = ot.strip().splitlines()[-1] if ot.strip() else ''
            out['tests_pass'] = ' passed' in out['tests'] and 'failed' not in out['tests']
        env = dict(os.environ, VERIF_REPO=wt)
        for p in [pid] + others:
            t0 = time.time()
            rc, o = sh(f'./check {p} --tier {tier} --no-evidence', cwd=V, env=env, timeout=int(os.environ.get('EVAL_TIMEOUT', '3000')))
            lines = [l for l in o.splitlines() if l.startswith('VIOLATION')]
            out[f'check_{p}'] = {'exit': rc, 'violation_lines': len(lines), 'wall_s': round(time.time() - t0, 1),
                                 'first': next((l for l in o.splitlines() if l.strip().startswith('harness=')), '')[:300],
                                 'summary': o.strip().splitlines()[-1][-200:] if o.strip() else ''}
        out['detected'] = out[f'check_{pid}']['exit'] == 1
    finally:
        sh(f'git -C /repo worktree remove --force {wt}')
        shutil.rmtree(wt, ignore_errors=True)
    return out


if __name__ == '__main__':
    print(json.dumps(main()))

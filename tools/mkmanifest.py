#!/usr/bin/env python3
"""Regenerate MANIFEST.json from the claims table below (properties.jsonl is never touched)."""
import json, os
V = os.path.dirname(os.path.dirname(os.path.abspath(__file__)))
CLAIMS = {
 'C01': "all complex data, per-axis alpha, real shift, integer offset for every shape tuple (m,n,M,N) <= 3 (quick) / 4 (thorough); inverse round trip and energy for shapes <= 4 / 6; out= buffers; call histories of 2-3 calls",
 'C02': "all amplitude/OPD/wavelength/focal length/per-axis scales for sampled pupil supports, output shapes, windows, masks, oversampling <= 2/3, both directions",
 'C03': "all amplitude/OPD/optics scalars for sampled set partitions of supports into <= 3/4 segments on arrays <= 3x3/4x4, one or two planes; coherent intensity",
 'C04': "all tilt angles via (enumerated whole-sample part, symbolic sub-sample part), all optics scalars; shift algebra for <= 3 angular/dispersive elements in all orders; fit_tilt for all OPDs on enumerated masks",
 'C05': "all pupil fields and optics scalars with 1/alpha = N exactly, periods <= 5/8 per axis, DFT and FFT propagators, nested windows, normalize_power",
 'C06': "insert: all integer offsets (unbounded, split by the explorer), all contents, shapes <= 3/4; products, merges, reduce: all contents and a common unbounded base offset for every relative offset in -4..4; extent helpers on fully symbolic integer extents",
 'C07': "all field contents/weights for sampled multi-field geometries; all amplitude/OPD values for every attribute-form combination of Plane/Pupil/Image on arrays <= 3x3/4x4; pixel-scale reconciliation on symbolic scales",
 'C08': "one step from every (wavefront type, plane type/class) against the table parsed from the docs; every program of length <= 3/4 over 16 operations from 3 start types (finite, enumerated completely); symbolic field data/optics show a single path per step",
 'C09': "all amplitude/OPD/optics scalars for FFT grids 2..5/8 per axis of both parities, sampled accepted output shapes, scratch buffers exact/larger/smaller with arbitrary content, tilt routes, wavelength free inside the rounding band",
 'C10': "40 public entry points on caller-owned symbolic arrays/objects (element terms before = after, real numpy aliasing), documented in-place APIs change only their target, histories of 2-3 calls (plane reuse, interleaved dft2 on a shared coordinate cache, repeated tilt fitting by two routes, spectrum reuse)",
 'C11': "symbolic Noll index j <= 45/120 (case split decided by z3 with the exact real square root), radial polynomials n <= 10/16 for all rho incl. |R| <= 1 on [0,1] and exact orthogonality integrals, mode values j <= 21/45 for all (rho, theta), default coordinates on sampled/all supports of arrays <= 3x3",
 'C12': "all coefficient vectors and all OPDs (box [-1,1]) for sampled ordered mode subsets (<= 3 of Noll 1..6 / <= 4 of 1..11) on four mask families, both normalisations, default and supplied coordinates; linear real arithmetic with 1e-9 tolerance",
 'C13': "all values, fill values and scalar/vector operands for sampled (grid pair, operator, sampling, unit pair) configurations over an enumerated exact-rational grid family (lengths <= 4/6), 4 operators (+ integer powers), 16 unit pairs",
 'C14': "all 64 wavelength-unit and 27 flux-unit triples (exhaustive) on symbolic fluxes/wavelengths; Spectrum.to on symbolic grids of length <= 3/4 in every (from, to, valueunit) combination; Planck radiance/exitance for all wavelengths and temperatures in all 12 unit pairs",
 'C15': "integrate with symbolic limits (split by the explorer) on 6 grids, linearity/additivity/exactness; bin for all non-negative values on 3 grids x 3 centre sets x end treatments x methods; every program of <= 2/3 resizing operations with symbolic arguments",
 'C16': "all photon cubes/QE/electron frames/gains/saturation capacities for every QE representation and unit, Bayer patterns (4 + sampled 2x2/3x3 strings) x tiles x oversample 1..3/4, all four gain forms and polynomial orders <= 3, dtypes, warning behaviour",
 'C17': "bookkeeping clauses only (pixel scale / s, ceil(n s) samples, mask structure and slices, 1/s amplitude factor against the real scipy spline weights, identity at s = 1, untouched original, resample = rescale(pixelscale/p), extent within one sample) for symbolic amplitude/OPD/pixel scale and 8/10 exact-rational scale factors; interpolation-accuracy clauses are outside",
 'C18': "symbolic seed and signals: results are the documented functions of contract-modelled draws (Poisson/normal/lognormal), rejections of negative counts, no use of the global generator, power_spectrum zero outside the mask with exact RMS on masks of any aspect ratio (sizes with exact trigonometry), cosmic-ray count; sample statistics and the ray tracer are outside",
 'C19': "all non-negative images (box [0,1]) of every aspect ratio with sides in {1,2,3,4}(,6), oversample 1..3, five smear angles, symbolic extents and pixel scales: shape, non-negativity, output = circular convolution with the analytic transfer function (pixel), total kept, translation equivariance, identity at zero extent, unit equivalence, zero image",
 'C20': "pad: all contents for every shape pair <= 4/5 (cubes <= 3/4); subarray: unbounded symbolic shifts; boundary family on sampled/all supports <= 3x3 with symbolic values; rebin; drawn shapes with symbolic radius/size/shift; hexagonal segments on a symbolic real sample position, radius and gap",
}
NA = {}
props = [json.loads(l) for l in open(os.path.join(V, 'properties.jsonl'))]
M = {
 "version": 1,
 "setup_cmd": "bin/ensure_env.sh",
 "hooks": {"guard": "LENTIL_VERIF", "enable": "none needed: the checks load /repo/lentil/*.py unmodified into private modules on every run (VERIF_REPO selects another tree)",
           "baseline_off_cmd": "cd /repo && /venv/bin/python -m pytest -ra -q -p no:cacheprovider --timeout=900 --continue-on-collection-errors", "source_commits": [], "add_only": True},
 "engines": [{"name": "symx", "path": "symx/", "serves_properties": sorted(CLAIMS),
              "kind_free_text": "symbolic execution of the real Python source by operator overloading over a numpy shim (values in ring normal form, z3 terms for every branch, rounding, root-of-unity and obligation query), z3 as the decision procedure, replay of models on the real code"}],
 "checks": [], "not_applicable": [],
 "notes": "exit 0 = every obligation discharged (or listed known finding), 1 = replayed violation, 2 = inconclusive (nothing claimed). known_findings.json lists genuine defects (fixed by 'fix:' commits in /repo, or known).",
}
for p in props:
    i = p['id']
    if i in CLAIMS:
        M['checks'].append({"property_id": i, "quick_cmd": f"./check {i} --tier quick", "thorough_cmd": f"./check {i} --tier thorough",
          "evidence_file": f"evidence/{i}.json", "replay_cmd_template": f"./check {i} --replay {{path}}", "engine": "symx",
          "level_claimed": {"category": "other", "text": "bounded symbolic execution of the real lentil source + SMT (z3): " + CLAIMS[i] + "; sat models are replayed on the real code before a violation is reported", "design_ref": f"DESIGN.md section 4 {i}"},
          "level_note": "reals stand in for floats; bounds on array sizes/option sets as stated in the evidence file; numpy modelled by a shim validated against the real numpy on every run; roots of unity / sqrt / rounding as atoms with stated axioms; a few obligations that rest on numpy dtype arithmetic, scipy optimisers or array sizes outside the exact trigonometry are evaluated on the real code at sampled points only and are named concrete-only in the harness and the evidence",
          "technique": "solver-based bounded checking: symbolic execution of the real Python source (ring normal form + z3 for branches, rounding, roots of unity, obligations), counterexample replay on the real code"})
    else:
        M['not_applicable'].append({"property_id": i, "reason": NA.get(i, "check not built yet in this revision (work in progress; see DESIGN.md)")})
json.dump(M, open(os.path.join(V, 'MANIFEST.json'), 'w'), indent=1)
print(len(M['checks']), 'claimed;', len(M['not_applicable']), 'not claimed')

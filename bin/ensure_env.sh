#!/bin/bash
# Idempotent: build the overlay venv the checks run in (offline).
# <verif>/.venv = venv of /venv's python + .pth to /venv's site-packages (numpy 1.26.4, scipy) + z3-solver, crosshair-tool from the wheelhouse.
set -e
ROOT="$(cd "$(dirname "$0")/.." && pwd)"
V="$ROOT/.venv"
if [ -x "$V/bin/python" ] && "$V/bin/python" -c "import z3, numpy, scipy, crosshair" 2>/dev/null; then exit 0; fi
(
  flock 9
  if [ -x "$V/bin/python" ] && "$V/bin/python" -c "import z3, numpy, scipy, crosshair" 2>/dev/null; then exit 0; fi
  rm -rf "$V"
  /venv/bin/python -m venv "$V"
  SP=$("$V/bin/python" -c "import sysconfig; print(sysconfig.get_paths()['purelib'])")
  echo "import site; site.addsitedir('/venv/lib/python3.12/site-packages')" > "$SP/_base.pth"
  PIP_NO_INDEX=1 "$V/bin/pip" install -q --no-index --find-links /opt/veriftools/wheels z3-solver crosshair-tool >/dev/null 2>&1 || \
  PIP_NO_INDEX=1 "$V/bin/pip" install -q --no-index --find-links /opt/veriftools/wheels z3-solver
  "$V/bin/python" -c "import z3, numpy, scipy; print('env ok', z3.get_version_string(), numpy.__version__)"
) 9>"$ROOT/.venv.lock"

"""symx core: variables, Laurent polynomials, symbolic scalars (SNum, SBool, SCx),
path explorer.  Values are kept in a canonical ring normal form while lentil's real code
executes; every branch, rounding, comparison and obligation is decided by z3.
"""
import builtins, math, cmath, os, time, itertools, sys
from fractions import Fraction
import z3
import numpy as rnp

sys.set_int_max_str_digits(0)


class SymxUnsupported(Exception):
    """The engine cannot model what the code asked for -> harness error (exit 2), never a verdict."""


class SymxDivZero(ZeroDivisionError):
    """Division whose denominator the solver can make zero (zero side of the fork)."""


class PathInfeasible(BaseException):
    pass


class Budget(BaseException):
    pass


# ----------------------------------------------------------------------------- variables
class Var:
    __slots__ = ('id', 'name', 'sort', 'z', 'kind', 'info', 'defs', 'deps', 'ev')

    def __repr__(self):
        return self.name


VARS = []
BYKEY = {}
BYNAME = {}


def mkvar(key, name, sort, kind=None, info=None):
    v = BYKEY.get(key)
    if v is not None:
        return v
    v = Var()
    v.id = len(VARS)
    v.name = name if name else f'{kind}{v.id}'
    v.sort = sort
    v.z = z3.Int(v.name) if sort == 'I' else z3.Real(v.name)
    v.kind = kind
    v.info = info
    v.defs = []
    v.deps = ()
    v.ev = None
    VARS.append(v)
    BYKEY[key] = v
    BYNAME[v.name] = v
    return v


SQRT = {}   # var id -> radicand Poly (q*q == radicand)
ABSQ = {}   # |x| atoms: var id -> x*x, applied lazily (at obligations) so that sums of squares stay syntactically positive


# ----------------------------------------------------------------------------- Laurent polynomials
def F(x):
    if isinstance(x, Fraction):
        return x
    if isinstance(x, (bool, rnp.bool_)):
        return Fraction(int(x))
    if isinstance(x, (int, rnp.integer)):
        return Fraction(int(x))
    if isinstance(x, (float, rnp.floating)):
        f = float(x)
        if f != f or f in (float('inf'), float('-inf')):
            raise SymxUnsupported(f'non-finite float {f} in symbolic arithmetic')
        if f == int(f) and abs(f) < 2 ** 62:
            return Fraction(int(f))
        return Fraction(repr(f))          # A-DEC: the decimal the float prints as
    raise TypeError(type(x))


def mmul(a, b):
    if not a:
        return b
    if not b:
        return a
    d = dict(a)
    for v, e in b:
        ne = d.get(v, 0) + e
        if ne:
            d[v] = ne
        else:
            del d[v]
    return tuple(sorted(d.items()))


class Poly:
    __slots__ = ('t', '_h', '_z', '_zi')

    def __init__(self, t):
        self.t = t
        self._h = None
        self._z = None
        self._zi = None

    @staticmethod
    def const(c):
        c = F(c)
        return Poly({(): c}) if c else Poly({})

    @staticmethod
    def var(vid, e=1):
        return Poly({((vid, e),): Fraction(1)})

    def is_zero(self):
        return not self.t

    def is_const(self):
        return not self.t or (len(self.t) == 1 and () in self.t)

    def cval(self):
        return self.t.get((), Fraction(0))

    def key(self):
        if self._h is None:
            self._h = frozenset(self.t.items())
        return self._h

    def __hash__(self):
        return hash(self.key())

    def __eq__(self, o):
        return isinstance(o, Poly) and self.t == o.t

    def vars(self):
        s = set()
        for m in self.t:
            for v, _ in m:
                s.add(v)
        return s

    def __add__(self, o):
        if not o.t:
            return self
        if not self.t:
            return o
        t = dict(self.t)
        for m, c in o.t.items():
            n = t.get(m, 0) + c
            if n:
                t[m] = n
            else:
                del t[m]
        return Poly(t)

    def __neg__(self):
        return Poly({m: -c for m, c in self.t.items()})

    def __sub__(self, o):
        if not o.t:
            return self
        t = dict(self.t)
        for m, c in o.t.items():
            n = t.get(m, 0) - c
            if n:
                t[m] = n
            else:
                del t[m]
        return Poly(t)

    def scale(self, c):
        if c == 1:
            return self
        if c == 0:
            return Poly({})
        return Poly({m: k * c for m, k in self.t.items()})

    def __mul__(self, o):
        a, b = self.t, o.t
        if not a or not b:
            return Poly({})
        if len(a) == 1 and () in a:
            return o.scale(a[()])
        if len(b) == 1 and () in b:
            return self.scale(b[()])
        t = {}
        red = False
        for m1, c1 in a.items():
            for m2, c2 in b.items():
                m = mmul(m1, m2)
                n = t.get(m, 0) + c1 * c2
                if n:
                    t[m] = n
                else:
                    del t[m]
        r = Poly(t)
        if SQRT:
            r = _reduce_sqrt(r)
        return r

    def pow(self, n):
        if n == 0:
            return Poly.const(1)
        if n < 0:
            return self.inv().pow(-n)
        if len(self.t) == 1:
            (m, c), = self.t.items()
            r = Poly({tuple((v, e * n) for v, e in m): c ** n})
            return _reduce_sqrt(r) if SQRT else r
        r = Poly.const(1)
        b = self
        while n:
            if n & 1:
                r = r * b
            b = b * b if n > 1 else b
            n >>= 1
        return r

    def is_monomial(self):
        return len(self.t) == 1

    def inv(self):
        """Exact inverse of a single monomial (raises otherwise)."""
        if len(self.t) != 1:
            raise ValueError('not a monomial')
        (m, c), = self.t.items()
        r = Poly({tuple((v, -e) for v, e in m): 1 / c})
        return _reduce_sqrt(r) if SQRT else r

    def evalf(self, env):
        s = 0.0
        for m, c in self.t.items():
            x = float(c) if abs(c.numerator) < 10 ** 300 and abs(c.denominator) < 10 ** 300 else c.numerator / c.denominator
            for v, e in m:
                x *= env(v) ** e
            s += x
        return s

    def __repr__(self):
        if not self.t:
            return '0'
        out = []
        for m, c in sorted(self.t.items(), key=lambda kv: str(kv[0])):
            s = str(c)
            for v, e in m:
                s += f'*{VARS[v].name}' + (f'^{e}' if e != 1 else '')
            out.append(s)
        return ' + '.join(out)


def _reduce_sqrt(p, SQRT=None):
    if SQRT is None:
        SQRT = globals()['SQRT']
    """Rewrite q^e (|e| >= 2) for sqrt-atoms q using q^2 = radicand (keeps the normal form canonical)."""
    again = True
    while again:
        again = False
        for m in p.t:
            hit = None
            for v, e in m:
                if v in SQRT and (e >= 2 or (e <= -1 and SQRT[v].is_monomial())):
                    hit = (v, e)
                    break
            if hit:
                v, e = hit
                c = p.t[m]
                rest = tuple((w, x) for w, x in m if w != v)
                k, r = (e // 2, e % 2)          # python floor semantics: e = 2k + r, r in {0, 1}, also for e < 0
                base = Poly({mmul(rest, ((v, r),) if r else ()): c})
                rad = SQRT[v]
                sub = base * (rad.pow(k) if k > 0 else rad.inv().pow(-k))
                t = dict(p.t)
                del t[m]
                p = Poly(t) + sub
                again = True
                break
    return p


P0 = Poly({})
P1 = Poly.const(1)


def zval(c):
    if c.denominator == 1:
        return z3.RealVal(c.numerator)
    return z3.RealVal(str(c))


def lower(p, as_int=False):
    """Poly -> z3 term (Real sort, or Int sort when as_int and the polynomial is integral)."""
    if as_int:
        if p._zi is not None:
            return p._zi
        terms = []
        for m, c in p.t.items():
            assert c.denominator == 1
            t = None
            for v, e in m:
                assert e > 0 and VARS[v].sort == 'I'
                for _ in range(e):
                    t = VARS[v].z if t is None else t * VARS[v].z
            if t is None:
                t = z3.IntVal(c.numerator)
            elif c != 1:
                t = z3.IntVal(c.numerator) * t
            terms.append(t)
        r = z3.IntVal(0) if not terms else (terms[0] if len(terms) == 1 else z3.Sum(terms))
        p._zi = r
        return r
    if p._z is not None:
        return p._z
    terms = []
    for m, c in p.t.items():
        num = None
        den = None
        for v, e in m:
            zv = VARS[v].z
            if VARS[v].sort == 'I':
                zv = z3.ToReal(zv)
            for _ in range(abs(e)):
                if e > 0:
                    num = zv if num is None else num * zv
                else:
                    den = zv if den is None else den * zv
        if num is None:
            t = zval(c)
        elif c == 1:
            t = num
        else:
            t = zval(c) * num
        if den is not None:
            t = t / den
        terms.append(t)
    r = z3.RealVal(0) if not terms else (terms[0] if len(terms) == 1 else z3.Sum(terms))
    p._z = r
    return r


def int_poly(p):
    """True if p is syntactically integer-valued: integer coefficients, int vars, exps > 0."""
    for m, c in p.t.items():
        if c.denominator != 1:
            return False
        for v, e in m:
            if e < 0 or VARS[v].sort != 'I':
                return False
    return True


# ----------------------------------------------------------------------------- context / explorer
CUR = [None]


def ctx():
    c = CUR[0]
    if c is None:
        raise RuntimeError('no symbolic context')
    return c


class Stats:
    def __init__(self):
        self.queries = 0
        self.solver_s = 0.0
        self.unknown = 0
        self.branch_queries = 0


STATS = Stats()
TIMEOUT_MS = [20000]


WITNESS = [None]
CROSS = {'dir': os.environ.get('SYMX_CROSS_DIR'), 'every': int(os.environ.get('SYMX_CROSS_EVERY', '25')), 'n': 0, 'dumped': 0}


def _cross_dump(solver, verdict):
    """Second-solver audit (tools/crosscheck.py): every Nth decided query is written out as SMT-LIB2 with the verdict
    z3 (Python API) gave, to be re-decided by the cvc5 and z3 binaries."""
    if not CROSS['dir'] or verdict not in ('unsat', 'sat'):
        return
    if CROSS['n'] == 0:
        CROSS['n'] = os.getpid() % CROSS['every']       # one process per configuration: stagger the selection across them
    CROSS['n'] += 1
    if CROSS['n'] % CROSS['every']:
        return
    try:
        os.makedirs(CROSS['dir'], exist_ok=True)
        body = solver.to_smt2()
        fn = os.path.join(CROSS['dir'], f'q{os.getpid()}_{CROSS["dumped"]:05d}_{verdict}.smt2')
        with open(fn, 'w') as f:
            f.write('(set-logic ALL)\n' + body)
        CROSS['dumped'] += 1
    except Exception:
        pass


_SKEL = {}
_SKEL_VARS = {}


def skeleton(e):
    """Linear skeleton of a z3 term: every product / quotient / power of non-numeral terms is replaced by a fresh variable
    (the same one for the same operands).  The skeleton is implied by... rather: implies nothing new; it is a relaxation, so
    skeleton-unsat entails unsat of the original."""
    i = e.get_id()
    r = _SKEL.get(i)
    if r is not None:
        return r[1]
    if z3.is_const(e) or z3.is_rational_value(e) or z3.is_int_value(e) or not z3.is_app(e):
        _SKEL[i] = (e, e)
        return e
    k = e.decl().kind()
    ch = [skeleton(c) for c in e.children()]
    out = None
    if k == z3.Z3_OP_MUL:
        nums = [c for c in ch if z3.is_rational_value(c) or z3.is_int_value(c)]
        rest = [c for c in ch if not (z3.is_rational_value(c) or z3.is_int_value(c))]
        if len(rest) >= 2:
            key = ('mul', tuple(sorted(c.get_id() for c in rest)), e.sort().kind())
            v = _SKEL_VARS.get(key)
            if v is None:
                v = z3.Real(f'skm{len(_SKEL_VARS)}') if z3.is_real(e) else z3.Int(f'skm{len(_SKEL_VARS)}')
                _SKEL_VARS[key] = (v, rest)
            else:
                v = v[0]
            out = v
            for n in nums:
                out = n * out
    elif k in (z3.Z3_OP_DIV, z3.Z3_OP_IDIV, z3.Z3_OP_MOD, z3.Z3_OP_POWER) and not (z3.is_rational_value(ch[1]) or z3.is_int_value(ch[1])):
        key = (k, (ch[0].get_id(), ch[1].get_id()), e.sort().kind())
        v = _SKEL_VARS.get(key)
        if v is None:
            v = z3.Real(f'skm{len(_SKEL_VARS)}') if z3.is_real(e) else z3.Int(f'skm{len(_SKEL_VARS)}')
            _SKEL_VARS[key] = (v, ch)
        else:
            v = v[0]
        out = v
    if out is None:
        out = e.decl()(*ch) if ch else e
    _SKEL[i] = (e, out)
    return out


class Ctx:
    def __init__(self, trail=None):
        self.solver = z3.Solver()
        self.solver.set('timeout', TIMEOUT_MS[0])
        self.trail = trail if trail is not None else []
        self.pos = 0
        self.pc = []
        self.assumed = []
        self.ensured = set()
        self.events = []
        self.nz = {}
        self.names = {}
        self.unknown_branch = 0
        self.roots_used = set()

    def ensure(self, vids):
        for v in vids:
            if v in self.ensured:
                continue
            self.ensured.add(v)
            var = VARS[v]
            if var.deps:
                self.ensure(var.deps)
            for d in var.defs:
                self.solver.add(d)

    def assume(self, f):
        if isinstance(f, SBool):
            f = f.f
        if f is True:
            return
        self.assumed.append(f)
        self.solver.add(f)

    def check(self, *extra):
        STATS.queries += 1
        t0 = time.time()
        if extra:
            self.solver.push()
            self.solver.add(*extra)
            r = self.solver.check()
            if CROSS['dir']:
                _cross_dump(self.solver, str(r))
            self.solver.pop()
        else:
            r = self.solver.check()
            if CROSS['dir']:
                _cross_dump(self.solver, str(r))
        STATS.solver_s += time.time() - t0
        r = str(r)
        if r == 'unknown':
            STATS.unknown += 1
        return r

    def staged(self, f):
        """feasibility of f on this path: quick look (2 s), then the linear skeleton, then the full budget"""
        self.solver.set('timeout', 2000)
        try:
            r = self.check(f)
        finally:
            self.solver.set('timeout', TIMEOUT_MS[0])
        if r != 'unknown':
            return r
        h = WITNESS[0]
        if h is not None and h(f):
            return 'sat'            # a sampled point of the path satisfies f (numerically, true sqrt/exp/cos): feasible
        if self.skeleton_unsat(f):
            return 'unsat'
        return self.check(f)

    def skeleton_unsat(self, *extra):
        """True if the linear skeleton of assumptions + path condition + extra is unsatisfiable (then so is the original)."""
        STATS.queries += 1
        t0 = time.time()
        s = z3.Solver()
        s.set('timeout', 8000)
        for a in self.solver.assertions():
            s.add(skeleton(a))
        for a in extra:
            s.add(skeleton(a))
        if self.roots_used:
            for a in self.root_axioms(False):
                s.add(a)
        r = str(s.check())
        STATS.solver_s += time.time() - t0
        return r == 'unsat'

    def root_axioms(self, nonlinear=True):
        ax = []
        for L in sorted(self.roots_used):
            cs, lin, nl = _root_atoms(L)
            ax += lin
            if nonlinear:
                ax += nl
        return ax

    def model(self, *extra):
        """(status, model) for assumptions + path condition + extra."""
        STATS.queries += 1
        t0 = time.time()
        self.solver.push()
        self.solver.add(*extra)
        if self.roots_used:
            # stage 1: linear theorems about roots of unity only (an unsat here is a fortiori an unsat with all axioms)
            self.solver.push()
            self.solver.add(*self.root_axioms(False))
            r1 = str(self.solver.check())
            self.solver.pop()
            if r1 == 'unsat':
                self.solver.pop()
                STATS.solver_s += time.time() - t0
                return 'unsat', None
            self.solver.add(*self.root_axioms(True))
        self.solver.set('timeout', min(2000, TIMEOUT_MS[0]))
        r = str(self.solver.check())
        self.solver.set('timeout', TIMEOUT_MS[0])
        if r == 'unknown':
            if self.skeleton_unsat(*extra):
                r = 'unsat'
            else:
                r = str(self.solver.check())
        m = self.solver.model() if r == 'sat' else None
        if CROSS['dir']:
            _cross_dump(self.solver, r)
        self.solver.pop()
        STATS.solver_s += time.time() - t0
        return r, m

    def valid(self, f):
        return self.check(z3.Not(f)) == 'unsat'

    def decide(self, f):
        if f is True or f is False:
            return f
        f = z3.simplify(f)
        if z3.is_true(f):
            return True
        if z3.is_false(f):
            return False
        if self.pos < len(self.trail):
            d = self.trail[self.pos][0]
        else:
            STATS.branch_queries += 2
            rt = self.staged(f)
            rf = self.staged(z3.Not(f))
            if rt == 'unknown' or rf == 'unknown':
                self.unknown_branch += 1
            can_t = rt != 'unsat'
            can_f = rf != 'unsat'
            if can_t:
                self.trail.append([True, can_f])
            elif can_f:
                self.trail.append([False, False])
            else:
                raise PathInfeasible()
            d = self.trail[self.pos][0]
        self.pos += 1
        c = f if d else z3.Not(f)
        self.pc.append(c)
        self.solver.add(c)
        return d

    def event(self, *e):
        self.events.append(e)


def explore(fn, max_paths=2000, on_path=None):
    """Run fn() once per feasible decision sequence.  fn's result / exception is the path outcome.
    on_path(ctx, outcome) is called while the path's context is still current."""
    trail = []
    out = []
    while True:
        c = Ctx(trail)
        CUR[0] = c
        try:
            try:
                res = ('ok', fn())
            except PathInfeasible:
                res = ('infeasible', None)
            except (SymxUnsupported, Budget):
                raise
            except Exception as e:          # lentil / shim exceptions are path outcomes
                res = ('raise', e)
            if res[0] != 'infeasible':
                if on_path is not None:
                    on_path(c, res)
                    out.append(None)                # the caller consumed the path: contexts of 10^4..10^5 paths are not kept alive
                else:
                    out.append((c, res))
            if len(out) > max_paths:
                raise Budget(f'more than {max_paths} paths')
        finally:
            pass
        trail = c.trail[:c.pos]
        while trail and not (trail[-1][0] and trail[-1][1]):
            trail.pop()
        if not trail:
            break
        trail[-1] = [False, False]
    CUR[0] = None
    return out


# ----------------------------------------------------------------------------- SBool
def zb(o):
    if isinstance(o, SBool):
        return o.f
    if isinstance(o, (bool, rnp.bool_)):
        return z3.BoolVal(bool(o))
    if isinstance(o, SNum):
        return (o != 0).f if isinstance(o != 0, SBool) else z3.BoolVal(bool(o != 0))
    if isinstance(o, (int, float, rnp.integer, rnp.floating)):
        return z3.BoolVal(bool(o))
    raise TypeError(type(o))


class SBool:
    __slots__ = ('f',)
    __array_ufunc__ = None

    def __init__(self, f):
        self.f = f

    def __bool__(self):
        return ctx().decide(self.f)

    def _arr(self, o, op):
        from . import arrays
        return arrays.scalar_with_array(self, o, op)

    def __and__(self, o):
        if isinstance(o, rnp.ndarray):
            return self._arr(o, 'and')
        return SBool(z3.And(self.f, zb(o)))

    def __or__(self, o):
        if isinstance(o, rnp.ndarray):
            return self._arr(o, 'or')
        return SBool(z3.Or(self.f, zb(o)))

    def __xor__(self, o):
        return SBool(z3.Xor(self.f, zb(o)))

    __rand__ = __and__
    __ror__ = __or__
    __rxor__ = __xor__

    def __invert__(self):
        return SBool(z3.Not(self.f))

    def __eq__(self, o):
        if isinstance(o, (SBool, bool, rnp.bool_)):
            return SBool(self.f == zb(o))
        return self.num() == o

    def __ne__(self, o):
        if isinstance(o, (SBool, bool, rnp.bool_)):
            return SBool(self.f != zb(o))
        return self.num() != o

    __hash__ = None

    def num(self):
        return ite(self, 1, 0)

    def __mul__(self, o):
        if isinstance(o, rnp.ndarray):
            return self._arr(o, 'mul')
        return ite(self, o, 0)

    __rmul__ = __mul__

    def __add__(self, o):
        return self.num() + o

    __radd__ = __add__

    def __sub__(self, o):
        return self.num() - o

    def __rsub__(self, o):
        return o - self.num()

    def __lt__(self, o):
        return self.num() < o

    def __gt__(self, o):
        return self.num() > o

    def __le__(self, o):
        return self.num() <= o

    def __ge__(self, o):
        return self.num() >= o

    def __repr__(self):
        return f'SBool({self.f})'


def sbool(f):
    """SBool or python bool if the formula folds."""
    f = z3.simplify(f)
    if z3.is_true(f):
        return True
    if z3.is_false(f):
        return False
    return SBool(f)


# ----------------------------------------------------------------------------- SNum
PYNUM = (int, float, Fraction, rnp.integer, rnp.floating, bool, rnp.bool_)
PYCX = (complex, rnp.complexfloating)


def is_pynum(x):
    return isinstance(x, PYNUM)


def as_num(o):
    """-> SNum or None"""
    if isinstance(o, SNum):
        return o
    if isinstance(o, PYNUM):
        return SNum(Poly.const(o), isinstance(o, (int, rnp.integer, bool, rnp.bool_)))
    if isinstance(o, SBool):
        return o.num()
    if isinstance(o, rnp.ndarray) and o.shape == () and o.dtype != object:
        return as_num(o[()])
    return None


def _zs(s):
    """z3 term of an SNum in its own sort; ensures atom definitions in the current context."""
    c = CUR[0]
    if c is not None:
        vs = s.p.vars()
        if vs:
            c.ensure(vs)
    if s.is_int and int_poly(s.p):
        return lower(s.p, True)
    return lower(s.p)


def zr(p):
    """Real-sorted z3 term of a Poly / SNum with definitions ensured."""
    if isinstance(p, SNum):
        p = p.p
    c = CUR[0]
    if c is not None:
        vs = p.vars()
        if vs:
            c.ensure(vs)
    return lower(p)


def zi(s):
    """Int-sorted z3 term of an integer SNum."""
    if isinstance(s, (int, rnp.integer)):
        return z3.IntVal(int(s))
    c = CUR[0]
    if c is not None:
        vs = s.p.vars()
        if vs:
            c.ensure(vs)
    if int_poly(s.p):
        return lower(s.p, True)
    return z3.ToInt(lower(s.p))


class SNum:
    __slots__ = ('p', 'is_int')
    __array_ufunc__ = None

    def __init__(self, p, is_int=False):
        self.p = p
        self.is_int = is_int

    # -- helpers
    def const(self):
        return self.p.cval() if self.p.is_const() else None

    def _arr(self, o, op, rev=False):
        from . import arrays
        return arrays.scalar_with_array(self, o, op, rev)

    def _bin(self, o, op, rev=False):
        if isinstance(o, rnp.ndarray):
            if o.shape == () and o.dtype != object:
                o = o[()]
            else:
                return self._arr(o, op, rev)
        if isinstance(o, PYCX) or isinstance(o, SCx):
            a, b = SCx.of(self), SCx.of(o)
            if rev:
                a, b = b, a
            return getattr(a, f'__{op}__')(b)
        on = as_num(o)
        if on is None:
            return NotImplemented
        a, b = (on, self) if rev else (self, on)
        return _numop(op, a, b)

    def __add__(s, o): return s._bin(o, 'add')
    def __radd__(s, o): return s._bin(o, 'add', True)
    def __sub__(s, o): return s._bin(o, 'sub')
    def __rsub__(s, o): return s._bin(o, 'sub', True)
    def __mul__(s, o): return s._bin(o, 'mul')
    def __rmul__(s, o): return s._bin(o, 'mul', True)
    def __truediv__(s, o): return s._bin(o, 'truediv')
    def __rtruediv__(s, o): return s._bin(o, 'truediv', True)
    def __floordiv__(s, o): return s._bin(o, 'floordiv')
    def __rfloordiv__(s, o): return s._bin(o, 'floordiv', True)
    def __mod__(s, o): return s._bin(o, 'mod')
    def __rmod__(s, o): return s._bin(o, 'mod', True)
    def __pow__(s, o): return s._bin(o, 'pow')
    def __rpow__(s, o): return s._bin(o, 'pow', True)

    def __neg__(s): return SNum(-s.p, s.is_int)
    def __pos__(s): return s

    def __and__(s, o):
        # integer & (2^k - 1)  ==  integer mod 2^k  (python semantics, also for negatives)
        if s.is_int and isinstance(o, (int, rnp.integer)) and o >= 0 and (int(o) + 1) & int(o) == 0:
            return s % (int(o) + 1)
        raise SymxUnsupported('bitwise and on a symbolic integer')

    __rand__ = __and__

    def __abs__(s):
        c = s.const()
        if c is not None:
            return SNum(Poly.const(abs(c)), s.is_int)
        if _known_nonneg(s.p):
            return s
        sg = _known_sign(s.p)
        if sg == -1:
            return -s
        return sx_abs(s)

    def _cmp(s, o, op):
        if isinstance(o, rnp.ndarray):
            if o.shape == () and o.dtype != object:
                o = o[()]
            else:
                return s._arr(o, op)
        if o is None:
            return op == 'ne'
        if isinstance(o, (SCx,) + PYCX):
            a, b = SCx.of(s), SCx.of(o)
            return a._cmp(b, op)
        on = as_num(o)
        if on is None:
            if isinstance(o, (str, tuple, list, dict)) or o is Ellipsis:
                return op == 'ne'
            return NotImplemented
        d = s.p - on.p
        if d.is_const():
            c = d.cval()
            return {'lt': c < 0, 'le': c <= 0, 'gt': c > 0, 'ge': c >= 0, 'eq': c == 0, 'ne': c != 0}[op]
        if op in ('ge', 'lt') and _sos(d):
            return op == 'ge'           # a positive combination of non-negative quantities
        if op in ('le', 'gt') and _sos(-d):
            return op == 'le'
        sg = _known_sign(d)
        if sg is not None:
            if sg == 'nz':
                if op in ('eq', 'ne'):
                    return op == 'ne'
            else:
                return {'lt': sg < 0, 'le': sg < 0, 'gt': sg > 0, 'ge': sg > 0, 'eq': False, 'ne': True}[op]
        if s.is_int and on.is_int and int_poly(s.p) and int_poly(on.p):
            a, b = _zs(s), _zs(on)
        else:
            a, b = zr(s.p), zr(on.p)
        f = {'lt': a < b, 'le': a <= b, 'gt': a > b, 'ge': a >= b, 'eq': a == b, 'ne': a != b}[op]
        return SBool(f)

    def __lt__(s, o): return s._cmp(o, 'lt')
    def __le__(s, o): return s._cmp(o, 'le')
    def __gt__(s, o): return s._cmp(o, 'gt')
    def __ge__(s, o): return s._cmp(o, 'ge')
    def __eq__(s, o): return s._cmp(o, 'eq')
    def __ne__(s, o): return s._cmp(o, 'ne')

    def __hash__(s):
        # structural hash of the normal form: equal normal forms hash alike (and compare True); semantically equal values with
        # different normal forms are merely a cache miss for dict / lru_cache users
        c = s.const()
        if c is None:
            return hash(s.p.key())
        return hash(c)

    def __bool__(s):
        r = (s != 0)
        return bool(r)

    def __int__(s):
        return concretize(sx_int(s))

    __index__ = __int__

    def __float__(s):
        c = s.const()
        if c is None:
            if s.is_int:
                return float(concretize(s))
            raise SymxUnsupported('float() of a symbolic real reached a C boundary')
        return float(c)

    def __complex__(s):
        return complex(float(s))

    def __round__(s, n=None):
        return sx_round(s)

    def __floor__(s): return sx_floor(s)
    def __ceil__(s): return sx_ceil(s)
    def __trunc__(s): return sx_int(s)

    # numpy-ish attributes
    real = property(lambda s: s)
    imag = property(lambda s: SNum(P0, True))
    shape = ()
    ndim = 0
    size = 1
    def conjugate(s): return s
    conj = conjugate
    def astype(s, t): return sx_cast(s, t)
    def item(s): return s
    def copy(s): return s
    def ravel(s):
        from . import arrays
        return arrays.to_sarr([s])

    def __repr__(s):
        return f'S<{s.p!r}>'

    def __format__(s, spec):
        return repr(s)


def _known_sign(p):
    """+1 / -1 / 'nz' for a single monomial whose variables are declared positive / non-zero; else None."""
    if len(p.t) != 1:
        return None
    (m, c), = p.t.items()
    if not m:
        return None
    pos = True
    for v, e in m:
        info = VARS[v].info
        if not info:
            return None
        if info.get('pos'):
            continue
        if info.get('nz'):
            if e % 2:
                pos = False
            continue
        return None
    if pos:
        return 1 if c > 0 else -1
    return 'nz'


def _known_nonneg(p):
    """Cheap syntactic non-negativity (single monomial of even powers / positive-declared vars)."""
    if not p.t:
        return True
    return _sos(p)


def _numop(op, a, b):
    r = _numop0(op, a, b)
    if isinstance(r, SNum) and r.is_int and r.p.is_const():
        c = r.p.cval()
        if c.denominator == 1:
            return int(c)           # integer constants flow on as python ints (shapes, indices, slices)
    return r


def _numop0(op, a, b):
    if op == 'add':
        return SNum(a.p + b.p, a.is_int and b.is_int)
    if op == 'sub':
        return SNum(a.p - b.p, a.is_int and b.is_int)
    if op == 'mul':
        return SNum(a.p * b.p, a.is_int and b.is_int)
    if op == 'truediv':
        return SNum(a.p * inverse(b.p), False)
    if op == 'floordiv':
        return floordiv(a, b)
    if op == 'mod':
        q = floordiv(a, b)
        return SNum(a.p - q.p * b.p, a.is_int and b.is_int)
    if op == 'pow':
        e = b.const()
        if e is None:
            raise SymxUnsupported('symbolic exponent')
        if e.denominator == 1:
            n = e.numerator
            if n >= 0:
                return SNum(a.p.pow(n), a.is_int)
            return SNum(inverse(a.p).pow(-n), False)
        if e.denominator == 2:
            r = sx_sqrt(a)
            n = e.numerator
            return r ** n if n != 1 else r
        raise SymxUnsupported(f'power {e}')
    raise SymxUnsupported(op)


def _sos(p):
    """syntactically a positive combination of even powers / positive-declared variables (value >= 0; > 0 unless all vanish)"""
    if not p.t:
        return False
    for m, c in p.t.items():
        if c <= 0:
            return False
        for v, e in m:
            if e % 2 and not (VARS[v].info and (VARS[v].info.get('pos') or VARS[v].info.get('nonneg'))):
                return False
    return True


def nonzero_check(p):
    """Fork on p == 0 when the solver can make the denominator zero."""
    if p.is_const():
        if p.cval() == 0:
            raise SymxDivZero('division by zero')
        return
    if p.is_monomial():
        (m, c), = p.t.items()
        if all(VARS[v].info and (VARS[v].info.get('pos') or VARS[v].info.get('nz')) for v, e in m):
            return
    c = ctx()
    k = p.key()
    if k in c.nz:
        return
    if not c.decide(zr(p) != 0):
        raise SymxDivZero('division by a value the solver can make zero')
    c.nz[k] = True


def inverse(p):
    nonzero_check(p)
    if p.is_monomial():
        return p.inv()
    # normalise sign/scale so that p and -p, 2p share one atom
    lead = min(p.t.items(), key=lambda kv: kv[0])[1]
    pn = p.scale(1 / lead)
    v = mkvar(('inv', pn.key()), None, 'R', 'inv', {'nz': True, 'pos': True} if _sos(pn) else {'nz': True})
    if not v.defs:
        v.deps = tuple(pn.vars())
        v.defs = [v.z * lower(pn) == 1]
        v.ev = lambda env, pn=pn: 1.0 / pn.evalf(env)
        INV[v.id] = pn
    return Poly.var(v.id).scale(1 / lead)


INV = {}


def sx_sqrt(x, nonneg_known=False, lemmas=None):
    x = as_num(x)
    c = x.const()
    if c is not None:
        if c < 0:
            raise SymxUnsupported('sqrt of a negative constant')
        n, d = c.numerator, c.denominator
        rn, rd = math.isqrt(n), math.isqrt(d)
        if rn * rn == n and rd * rd == d:
            return SNum(Poly.const(Fraction(rn, rd)), False)
    p = x.p
    outer = None
    if p.is_monomial():
        # sqrt(c * prod v^e) = r * prod_{pos v} v^(e//2) * sqrt(t * prod v^(e%2)),  c = r^2 t with t a squarefree integer
        (m, cf), = p.t.items()
        if cf > 0:
            n = cf.numerator * cf.denominator          # sqrt(n/d) = sqrt(n d)/d
            sq, t = _square_part(n)
            r = Fraction(sq, cf.denominator)
            om, im = [], []
            for v, e in m:
                if VARS[v].info and VARS[v].info.get('pos'):
                    if e // 2:
                        om.append((v, e // 2))
                    if e % 2:
                        im.append((v, 1))
                else:
                    im.append((v, e))
            outer = Poly({tuple(om): r})
            # the squarefree integer t is split into primes: sqrt(6) = sqrt(2) sqrt(3), so that products of roots share atoms
            for pr in _prime_factors(t):
                outer = outer * _sqrt_prime(pr)
            p = Poly({tuple(im): Fraction(1)})
            if p.is_const():
                return SNum(outer, False)
    c0 = CUR[0]
    if c0 is not None and not nonneg_known and not _known_nonneg(p):
        # domain: the radicand must be provably non-negative on this path, otherwise the path forks and the negative side
        # is not modelled (numpy would produce NaN there)
        k = ('sqrt-dom', p.key())
        if k not in c0.names:
            c0.names[k] = True
            if not c0.decide(zr(p) >= 0):
                raise SymxUnsupported('sqrt of a value the solver can make negative (NaN semantics are not modelled)')
    v = mkvar(('sqrt', p.key()), None, 'R', 'sqrt', {'nonneg': True})
    if not v.defs:
        v.deps = tuple(p.vars())
        v.defs = [v.z >= 0, v.z * v.z == lower(p)]
        if lemmas and outer is None:
            # linear consequences supplied by the caller (e.g. sqrt(a^2 + b^2) >= |a|, |b|): theorems, they only help the solver
            v.deps = tuple(set(v.deps) | set(w for l in lemmas for w in l.vars()))
            v.defs += [v.z >= lower(l) for l in lemmas]
        v.ev = lambda env, p=p: math.sqrt(max(p.evalf(env), 0.0))
        SQRT[v.id] = p
    r = Poly.var(v.id)
    if outer is not None:
        r = r * outer
    return SNum(r, False)


_TRIAL = 2000      # trial division bound: constants that come from floats have 50-digit numerators; what is left above the bound
                   # stays one (possibly composite) factor - canonical all the same, only less shared


def _prime_factors(t):
    out, d = [], 2
    while d * d <= t and d <= _TRIAL:
        while t % d == 0:
            out.append(d)
            t //= d
        d += 1
    if t > 1:
        out.append(t)
    return out


def _sqrt_prime(pr):
    p = Poly.const(pr)
    v = mkvar(('sqrt', p.key()), f'sqrt_{pr}', 'R', 'sqrt', {'pos': True})
    if not v.defs:
        v.defs = [v.z > 0, v.z * v.z == pr]
        v.ev = lambda env, pr=pr: math.sqrt(pr)
        SQRT[v.id] = p
    return Poly.var(v.id)


def _square_part(n):
    """n = s^2 * t with t squarefree -> (s, t)"""
    s, t, d = 1, n, 2
    while d * d <= t and d <= _TRIAL:
        while t % (d * d) == 0:
            t //= d * d
            s *= d
        d += 1
    r = math.isqrt(t)
    if r * r == t:
        s, t = s * r, 1
    return s, t


def sx_abs(x):
    """|x| as an atom q with q = If(x >= 0, x, -x); the normal form knows q^2 = x^2."""
    p = x.p
    lead = min(p.t.items(), key=lambda kv: kv[0])[1]
    if lead < 0:
        p = -p
    v = mkvar(('abs', p.key()), None, 'I' if (x.is_int and int_poly(p)) else 'R', 'abs', {'nonneg': True})
    if not v.defs:
        v.deps = tuple(p.vars())
        if v.sort == 'I':
            xz = lower(p, True)
        else:
            xz = lower(p)
        v.defs = [v.z == z3.If(xz >= 0, xz, -xz)]
        v.ev = lambda env, p=p: abs(p.evalf(env))
        ABSQ[v.id] = p * p
    c0 = CUR[0]
    if c0 is not None:
        c0.ensure([v.id])
    return SNum(Poly.var(v.id), x.is_int)


def _round_atom(kind, x):
    x = as_num(x)
    if x.is_int:
        c = x.const()
        return x if c is None else int(c)
    c = x.const()
    if c is not None:
        r = {'floor': math.floor, 'ceil': math.ceil, 'fix': math.trunc,
             'round': lambda q: int(rnp.round(float(q))) if q.denominator != 2 else (
                 (q.numerator // 2) if (q.numerator // 2) % 2 == 0 else (q.numerator // 2 + 1))}[kind](c)
        return int(r)
    p = x.p
    v = mkvar((kind, p.key()), None, 'I', kind)
    if not v.defs:
        v.deps = tuple(p.vars())
        k = z3.ToReal(v.z)
        xz = lower(p)
        if kind == 'floor':
            v.defs = [k <= xz, xz < k + 1]
            v.ev = lambda env, p=p: math.floor(p.evalf(env))
        elif kind == 'ceil':
            v.defs = [k - 1 < xz, xz <= k]
            v.ev = lambda env, p=p: math.ceil(p.evalf(env))
        elif kind == 'fix':
            v.defs = [z3.If(xz >= 0, z3.And(k <= xz, xz < k + 1), z3.And(k >= xz, xz > k - 1))]
            v.ev = lambda env, p=p: math.trunc(p.evalf(env))
        else:  # round half to even; ties excluded by harness assumption are still modelled exactly
            v.defs = [z3.And(k - z3.RealVal('1/2') <= xz, xz <= k + z3.RealVal('1/2')),
                      z3.Implies(xz == k - z3.RealVal('1/2'), v.z % 2 == 0),
                      z3.Implies(xz == k + z3.RealVal('1/2'), v.z % 2 == 0)]
            v.ev = lambda env, p=p: int(rnp.round(p.evalf(env)))
    c0 = CUR[0]
    if c0 is not None:
        # pin detection: if the path condition forces a single value, use the literal (keeps later phases closed rationals)
        k = ('pin', v.id, len(c0.pc), len(c0.assumed))
        st = c0.names.get(('pin', v.id))
        if st is None or st[0] != (len(c0.pc), len(c0.assumed)):
            c0.ensure([v.id])
            c0.solver.set('timeout', 3000)
            try:
                r0, m = c0.model()
                pinned = None
                if r0 == 'sat':
                    val = m.eval(v.z, model_completion=True).as_long()
                    if c0.check(v.z != val) == 'unsat':
                        pinned = val
            finally:
                c0.solver.set('timeout', TIMEOUT_MS[0])
            st = ((len(c0.pc), len(c0.assumed)), pinned)
            c0.names[('pin', v.id)] = st
        if st[1] is not None:
            return int(st[1])
    r = SNum(Poly.var(v.id), True)
    return r


def sx_floor(x): return _round_atom('floor', x)
def sx_ceil(x): return _round_atom('ceil', x)
def sx_fix(x): return _round_atom('fix', x)
def sx_round(x): return _round_atom('round', x)


def sx_int(x=0, *a):
    """lentil's `int(...)` calls."""
    if isinstance(x, SNum):
        return sx_fix(x)
    if isinstance(x, SBool):
        return x.num()
    if isinstance(x, rnp.ndarray) and x.dtype == object and x.shape == ():
        return sx_int(x[()])
    return builtins.int(x, *a)


def sx_float(x=0.0):
    if isinstance(x, SNum):
        return SNum(x.p, False)
    if isinstance(x, SBool):
        return x.num()
    if isinstance(x, rnp.ndarray) and x.dtype == object and x.shape == ():
        return sx_float(x[()])
    return builtins.float(x)


def sx_complex(*a):
    if any(isinstance(x, (SNum, SCx)) for x in a):
        if len(a) == 1:
            return SCx.of(a[0])
        return SCx.of(a[0]) + SCx.of(a[1]) * 1j
    return builtins.complex(*a)


def sx_cast(x, t):
    if t in (builtins.int, rnp.int64, rnp.int32, rnp.intp, 'int'):
        return sx_int(x)
    return x


def floordiv(a, b):
    ca, cb = a.const(), b.const()
    if ca is not None and cb is not None:
        if cb == 0:
            raise ZeroDivisionError('integer division or modulo by zero')
        return SNum(Poly.const(ca // cb), a.is_int and b.is_int)
    if a.is_int and b.is_int and cb is not None and cb > 0 and int_poly(a.p):
        k = int(cb)
        if k == 1:
            return a
        # split off the part of the polynomial divisible by k (keeps atoms small and shared)
        divis = Poly({m: c for m, c in a.p.t.items() if c % k == 0})
        rest = a.p - divis
        if rest.is_zero():
            return SNum(divis.scale(Fraction(1, k)), True)
        v = mkvar(('fdiv', rest.key(), k), None, 'I', 'fdiv')
        if not v.defs:
            v.deps = tuple(rest.vars())
            n = lower(rest, True)
            v.defs = [k * v.z <= n, n < k * v.z + k]
            v.ev = lambda env, rest=rest, k=k: math.floor(rest.evalf(env) / k)
        return SNum(divis.scale(Fraction(1, k)) + Poly.var(v.id), True)
    q = _numop('truediv', a, b)
    return sx_floor(q)


def ite(c, a, b):
    """if-then-else on numbers (SNum / python numbers / SCx)."""
    if isinstance(c, (bool, rnp.bool_)):
        return a if c else b
    if isinstance(c, SBool):
        f = z3.simplify(c.f)
        if z3.is_true(f):
            return a
        if z3.is_false(f):
            return b
    else:
        raise TypeError(type(c))
    if isinstance(a, (SCx,) + PYCX) or isinstance(b, (SCx,) + PYCX):
        a, b = SCx.of(a), SCx.of(b)
        keys = set(a.t) | set(b.t)
        t = {}
        for k in keys:
            ar, ai = a.t.get(k, (P0, P0))
            br, bi = b.t.get(k, (P0, P0))
            t[k] = (ite(c, SNum(ar), SNum(br)).p, ite(c, SNum(ai), SNum(bi)).p)
        return SCx(t).clean()
    if isinstance(a, SBool) or isinstance(b, SBool) or (isinstance(a, (bool, rnp.bool_)) and isinstance(b, (bool, rnp.bool_))):
        return sbool(z3.If(f, zb(a), zb(b)))
    an, bn = as_num(a), as_num(b)
    if an is None or bn is None:
        raise SymxUnsupported(f'ite on {type(a)} / {type(b)}')
    if an.p == bn.p:
        return SNum(an.p, an.is_int and bn.is_int)
    c0 = CUR[0]
    if c0 is not None and PRUNE_ITE[0]:
        # prune by the path condition: a condition the solver already decides needs no atom
        k = ('ite?', f.get_id())
        st = c0.names.get(k)
        if st is None:
            c0.names[('keep', f.get_id())] = f
            if c0.check(z3.Not(f)) == 'unsat':
                st = 'T'
            elif c0.check(f) == 'unsat':
                st = 'F'
            else:
                st = '?'
            c0.names[k] = st
        if st == 'T':
            return a if isinstance(a, SNum) else an
        if st == 'F':
            return b if isinstance(b, SNum) else bn
    is_int = an.is_int and bn.is_int and int_poly(an.p) and int_poly(bn.p)
    v = mkvar(('ite', f.get_id(), an.p.key(), bn.p.key()), None, 'I' if is_int else 'R', 'ite', {'keep': f})
    if not v.defs:
        v.deps = tuple(an.p.vars() | bn.p.vars())
        if is_int:
            v.defs = [v.z == z3.If(f, lower(an.p, True), lower(bn.p, True))]
        else:
            v.defs = [v.z == z3.If(f, lower(an.p), lower(bn.p))]
        v.ev = None      # evaluated through the model
    c0 = CUR[0]
    if c0 is not None:
        c0.ensure([v.id])
    return SNum(Poly.var(v.id), an.is_int and bn.is_int)


PRUNE_ITE = [True]


def sx_min(a, b):
    r = a <= b
    if isinstance(r, (bool, rnp.bool_)):
        return a if r else b
    return ite(r, a, b)


def sx_max(a, b):
    r = a >= b
    if isinstance(r, (bool, rnp.bool_)):
        return a if r else b
    return ite(r, a, b)


def concretize(s):
    """Realise a symbolic integer by solver-driven case split (forks the path)."""
    if isinstance(s, (int, rnp.integer)):
        return int(s)
    c0 = s.const()
    if c0 is not None:
        if c0.denominator != 1:
            raise SymxUnsupported('concretize of non-integer')
        return int(c0)
    c = ctx()
    t = zi(s)
    for _ in range(10000):
        r, m = c.model()
        if r != 'sat':
            raise PathInfeasible()
        val = m.eval(t, model_completion=True).as_long()
        if c.decide(t == val):
            return val
    raise Budget('concretize')


# ----------------------------------------------------------------------------- declared inputs
PI = mkvar(('pi',), 'pi', 'R', 'pi', {'pos': True})
PI.defs = [PI.z > z3.RealVal('3.14159'), PI.z < z3.RealVal('3.1416')]
PI.ev = lambda env: math.pi
SPI = SNum(Poly.var(PI.id), False)


def real_var(name, pos=False, nonneg=False, lo=None, hi=None, nz=False):
    lo = Fraction(lo) if isinstance(lo, str) else lo
    hi = Fraction(hi) if isinstance(hi, str) else hi
    info = {'lo': lo, 'hi': hi, 'nonneg': nonneg}
    if pos:
        info['pos'] = True
    if nz:
        info['nz'] = True
    v = mkvar(('in', name), name, 'R', 'in', info)
    if not v.defs:
        d = []
        if pos:
            d.append(v.z > 0)
        if nonneg:
            d.append(v.z >= 0)
        if nz:
            d.append(v.z != 0)
        if lo is not None:
            d.append(v.z >= zval(F(lo)))
        if hi is not None:
            d.append(v.z <= zval(F(hi)))
        v.defs = d
    c = CUR[0]
    if c is not None:
        c.ensure([v.id])
    return SNum(Poly.var(v.id), False)


def int_var(name, lo=None, hi=None, pos=False):
    info = {'pos': True} if (pos or (lo is not None and lo > 0)) else {}
    info['lo'], info['hi'] = lo, hi
    v = mkvar(('in', name), name, 'I', 'in', info)
    if not v.defs:
        d = []
        if pos:
            d.append(v.z > 0)
        if lo is not None:
            d.append(v.z >= lo)
        if hi is not None:
            d.append(v.z <= hi)
        v.defs = d
    c = CUR[0]
    if c is not None:
        c.ensure([v.id])
    return SNum(Poly.var(v.id), True)


def bool_var(name):
    return SBool(z3.Bool(name))


# ----------------------------------------------------------------------------- complex values
class SCx:
    """sum_k (re_k + i im_k) e^{2 pi i phase_k}; key = phase Poly (turns, constant term mod 1)."""
    __slots__ = ('t', 'sq_of')
    __array_ufunc__ = None

    def __init__(self, t):
        self.t = t
        self.sq_of = None

    @staticmethod
    def of(o):
        if isinstance(o, SCx):
            return o
        if isinstance(o, SNum):
            return SCx({P0: (o.p, P0)}) if o.p.t else SCx({})
        if isinstance(o, PYCX):
            return SCx({P0: (Poly.const(float(o.real)), Poly.const(float(o.imag)))}).clean()
        if isinstance(o, SBool):
            return SCx.of(o.num())
        if isinstance(o, rnp.ndarray) and o.shape == ():
            return SCx.of(o[()])
        return SCx({P0: (Poly.const(o), P0)}).clean()

    def clean(self):
        self.t = {k: v for k, v in self.t.items() if v[0].t or v[1].t}
        return self

    def _arr(self, o, op, rev=False):
        from . import arrays
        return arrays.scalar_with_array(self, o, op, rev)

    def is_real(self):
        return all(k == P0 and not v[1].t for k, v in self.t.items())

    def as_real(self):
        """SNum if the value is syntactically real (single zero phase, zero imaginary part)."""
        if not self.t:
            return SNum(P0, False)
        if self.is_real():
            return SNum(self.t[P0][0], False)
        return None

    def __add__(self, o):
        if isinstance(o, rnp.ndarray) and not (o.shape == () and o.dtype != object):
            return self._arr(o, 'add')
        try:
            o = SCx.of(o)
        except TypeError:
            return NotImplemented
        t = dict(self.t)
        for k, (r, i) in o.t.items():
            if k in t:
                t[k] = (t[k][0] + r, t[k][1] + i)
            else:
                t[k] = (r, i)
        return SCx(t).clean()

    __radd__ = __add__

    def __neg__(self):
        return SCx({k: (-r, -i) for k, (r, i) in self.t.items()})

    def __pos__(self):
        return self

    def __sub__(self, o):
        if isinstance(o, rnp.ndarray) and not (o.shape == () and o.dtype != object):
            return self._arr(o, 'sub')
        try:
            return self + (-SCx.of(o))
        except TypeError:
            return NotImplemented

    def __rsub__(self, o):
        if isinstance(o, rnp.ndarray) and not (o.shape == () and o.dtype != object):
            return self._arr(o, 'sub', True)
        return SCx.of(o) + (-self)

    def __mul__(self, o):
        if isinstance(o, rnp.ndarray) and not (o.shape == () and o.dtype != object):
            return self._arr(o, 'mul')
        try:
            o = SCx.of(o)
        except TypeError:
            return NotImplemented
        t = {}
        for k1, (a, b) in self.t.items():
            for k2, (c, d) in o.t.items():
                k = kadd(k1, k2)
                re = a * c - b * d
                im = a * d + b * c
                if k in t:
                    t[k] = (t[k][0] + re, t[k][1] + im)
                else:
                    t[k] = (re, im)
        return SCx(t).clean()

    __rmul__ = __mul__

    def __truediv__(self, o):
        if isinstance(o, rnp.ndarray) and not (o.shape == () and o.dtype != object):
            return self._arr(o, 'truediv')
        if isinstance(o, (SCx,) + PYCX):
            o = SCx.of(o)
            r = o.as_real()
            if r is None:
                if len(o.t) == 1:
                    # single phase term: 1/(c e(p)) = conj(c) e(-p) / |c|^2
                    (k, (a, b)), = o.t.items()
                    n2 = SNum(a * a + b * b)
                    return self * SCx({kneg(k): (a, -b)}) / n2
                raise SymxUnsupported('division by a multi-phase complex value')
            o = r
        on = as_num(o)
        if on is None:
            return NotImplemented
        inv = inverse(on.p)
        return SCx({k: (r * inv, i * inv) for k, (r, i) in self.t.items()}).clean()

    def __rtruediv__(self, o):
        return SCx.of(o) / self

    def __pow__(self, p):
        if isinstance(p, SNum):
            p = p.const()
        if p == 2:
            r = self * self
            r.sq_of = self
            return r
        if p == 1:
            return self
        if p == 0:
            return SCx.of(1)
        if isinstance(p, (int, Fraction)) and p == int(p) and p > 0:
            r = self
            for _ in range(int(p) - 1):
                r = r * self
            return r
        raise SymxUnsupported(f'complex power {p}')

    def conjugate(self):
        return SCx({kneg(k): (r, -i) for k, (r, i) in self.t.items()})

    conj = conjugate

    def abs2(self):
        return self * self.conjugate()

    def __abs__(self):
        if self.sq_of is not None:
            return self.sq_of.abs2()       # |z^2| = |z|^2
        r = self.as_real()
        if r is not None:
            return abs(r)
        if len(self.t) == 1:
            (k, (a, b)), = self.t.items()
            return sx_sqrt(SNum(a * a + b * b), nonneg_known=True)
        ex = self.exact_parts()
        if ex is not None:
            re, im = ex
            if im.p.is_zero():
                return abs(re)
            return sx_sqrt(re * re + im * im, nonneg_known=True, lemmas=[re.p, -re.p, im.p, -im.p])      # a sum of two squares
        raise SymxUnsupported('abs of a multi-phase complex value')

    def exact_parts(self):
        """(re, im) as SNum when every phase is a rational number of turns with denominator dividing 8 or 12
        (exact cos/sin over sqrt(2), sqrt(3)); None otherwise."""
        from . import arrays
        re, im = SNum(P0, False), SNum(P0, False)
        for k, (a, b) in self.t.items():
            if not k.is_const():
                return None
            c = k.cval()
            if c.denominator not in (1, 2, 3, 4, 6, 8, 12):
                return None
            if c.denominator in (1, 2, 4):
                co, si = {0: (1, 0), 1: (0, 1), 2: (-1, 0), 3: (0, -1)}[int(c * 4) % 4]
            else:
                co, si = arrays._exact_trig(c, 'cos'), arrays._exact_trig(c, 'sin')
            A, B = SNum(a, False), SNum(b, False)
            re = re + A * co - B * si
            im = im + A * si + B * co
        return as_num(re), as_num(im)

    @property
    def real(self):
        r = self.as_real()
        if r is not None:
            return r
        if all(k == P0 for k in self.t):
            return SNum(self.t[P0][0], False)
        ex = self.exact_parts()
        if ex is not None:
            return ex[0]
        return SCx.half(self + self.conjugate())

    @property
    def imag(self):
        if not self.t or self.is_real():
            return SNum(P0, False)
        if all(k == P0 for k in self.t):
            return SNum(self.t[P0][1], False)
        ex = self.exact_parts()
        if ex is not None:
            return ex[1]
        d = self - self.conjugate()       # 2 i Im
        return SCx({k: (i.scale(Fraction(1, 2)), -r.scale(Fraction(1, 2))) for k, (r, i) in d.t.items()}).clean()

    @staticmethod
    def half(z):
        return SCx({k: (r.scale(Fraction(1, 2)), i.scale(Fraction(1, 2))) for k, (r, i) in z.t.items()}).clean()

    def exp(self):
        """exp(a + i b): the zero-phase term only.  b must be a multiple of pi."""
        if not self.t:
            return SCx.of(1)
        if set(self.t) != {P0}:
            raise SymxUnsupported('exp of an oscillating value')
        re, im = self.t[P0]
        out = SCx.of(1)
        if im.t:
            # im = pi * b1  (every monomial must carry pi^1)
            t = {}
            for m, c in im.t.items():
                d = dict(m)
                if d.get(PI.id) != 1:
                    raise SymxUnsupported(f'exp(i*b) with b not a multiple of pi: {im!r}')
                del d[PI.id]
                t[tuple(sorted(d.items()))] = c / 2
            out = SCx({phase_key(Poly(t)): (P1, P0)})
        if re.t:
            out = out * real_exp(SNum(re))
        return out

    def _cmp(self, o, op):
        if op not in ('eq', 'ne'):
            raise TypeError('ordering of complex values')
        d = self - SCx.of(o)
        if not d.t:
            return op == 'eq'
        re, im = lower_cx(d)
        f = z3.And(re == 0, im == 0)
        return sbool(f if op == 'eq' else z3.Not(f))

    def __eq__(self, o):
        return self._cmp(o, 'eq')

    def __ne__(self, o):
        return self._cmp(o, 'ne')

    __hash__ = None

    def __bool__(self):
        return bool(self != 0)

    shape = ()
    ndim = 0
    size = 1
    def item(self): return self
    def copy(self): return self
    def astype(self, t): return self

    def __repr__(self):
        return 'SCx{' + ', '.join(f'e({k!r}):({r!r})+i({i!r})' for k, (r, i) in self.t.items()) + '}'

    def __format__(self, spec):
        return repr(self)


def phase_key(p):
    """Canonical phase (turns): constant term reduced mod 1."""
    c = p.t.get(())
    if c is not None:
        c2 = c % 1
        if c2 != c:
            t = dict(p.t)
            if c2:
                t[()] = c2
            else:
                del t[()]
            p = Poly(t)
    return p


def kadd(a, b):
    if not a.t:
        return b
    if not b.t:
        return a
    return phase_key(a + b)


def kneg(a):
    if not a.t:
        return a
    return phase_key(-a)


def unit(turns):
    """e^{2 pi i turns} for an SNum / number of turns."""
    t = as_num(turns)
    return SCx({phase_key(t.p): (P1, P0)})


REXP = {}


def real_exp(x):
    """exp of a real symbolic argument: atom with exp > 0, exp(0) = 1; congruent on canonical args."""
    x = as_num(x)
    c = x.const()
    if c is not None and c == 0:
        return SNum(P1, False)
    v = mkvar(('exp', x.p.key()), None, 'R', 'exp', {'pos': True})
    if not v.defs:
        v.deps = tuple(x.p.vars())
        # exp > 0; exp(a) > 1 for a syntactically positive argument, < 1 for a negative one (theorems; kept linear on purpose)
        v.defs = [v.z > 0]
        sg = _known_sign(x.p)
        if sg == 1:
            v.defs.append(v.z > 1)
        elif sg == -1:
            v.defs.append(v.z < 1)
        v.ev = lambda env, p=x.p: math.exp(p.evalf(env))
        REXP[v.id] = x.p
    return SNum(Poly.var(v.id), False)


# ----------------------------------------------------------------------------- lowering complex values
ROOTS = {}


def _root_atoms(L):
    """(cos, sin) z3 terms of e(k/L), k in Z_L, with linear axioms (theorems about roots of unity:
    conjugate symmetry, vanishing subgroup/coset sums, half/quarter-turn relations) and the
    non-linear ones (unit modulus, first-quadrant signs)."""
    if L in ROOTS:
        return ROOTS[L]
    lin, nl = [], []
    exact = {1: [(1, 0)], 2: [(1, 0), (-1, 0)], 4: [(1, 0), (0, 1), (-1, 0), (0, -1)]}
    if L in exact:
        cs = [(z3.RealVal(a), z3.RealVal(b)) for a, b in exact[L]]
    else:
        cs = [(z3.Real(f'rc{L}_{j}'), z3.Real(f'rs{L}_{j}')) for j in range(L)]
        lin += [cs[0][0] == 1, cs[0][1] == 0]
        for k in range(1, L):
            lin += [cs[k][0] == cs[(L - k) % L][0], cs[k][1] == -cs[(L - k) % L][1]]
            nl += [cs[k][0] * cs[k][0] + cs[k][1] * cs[k][1] == 1]
        for g in range(1, L):
            if L % g == 0:
                for a in range(g):
                    lin += [z3.Sum([cs[(a + g * j) % L][0] for j in range(L // g)]) == 0,
                            z3.Sum([cs[(a + g * j) % L][1] for j in range(L // g)]) == 0]
        if L % 2 == 0:
            for k in range(L // 2):
                lin += [cs[k + L // 2][0] == -cs[k][0], cs[k + L // 2][1] == -cs[k][1]]
        if L % 4 == 0:
            q = L // 4
            for k in range(L):
                lin += [cs[(k + q) % L][0] == -cs[k][1], cs[(k + q) % L][1] == cs[k][0]]
        for k in range(1, L):
            if 4 * k < L:
                nl += [cs[k][0] > 0, cs[k][1] > 0]
    ROOTS[L] = (cs, lin, nl)
    return ROOTS[L]


def _sym_phase_atoms(p):
    """(cos, sin, axioms) for a symbolic phase Poly p (no constant term), sign-canonical."""
    lead = min(p.t.items(), key=lambda kv: kv[0])[1]
    sgn = 1
    if lead < 0:
        p = -p
        sgn = -1
    v = mkvar(('cos', p.key()), None, 'R', 'cos')
    w = mkvar(('sin', p.key()), None, 'R', 'sin')
    if not v.defs:
        v.deps = w.deps = tuple(p.vars())
        v.defs = [v.z * v.z + w.z * w.z == 1]
        v.ev = lambda env, p=p: math.cos(2 * math.pi * p.evalf(env))
        w.ev = lambda env, p=p: math.sin(2 * math.pi * p.evalf(env))
    return v, w, sgn


def lower_cx(z, L=None):
    """SCx -> (re, im) z3 terms; rational phases over Z_L (root atoms), symbolic phases as (cos, sin) atoms."""
    z = SCx.of(z)
    c = CUR[0]
    keys = list(z.t)
    if L is None:
        L = 1
        for k in keys:
            d = k.t.get((), Fraction(0)).denominator
            L = L * d // math.gcd(L, d)
    cs, lin, nl = _root_atoms(L)
    if c is not None and L > 1:
        c.roots_used.add(L)
    RE, IM = [], []
    for k, (a, b) in z.t.items():
        const = k.t.get((), Fraction(0))
        sym = Poly({m: cf for m, cf in k.t.items() if m != ()}) if len(k.t) > (1 if () in k.t else 0) else P0
        cr, ci = cs[int(const * L) % L]
        if sym.t:
            v, w, sgn = _sym_phase_atoms(sym)
            if c is not None:
                c.ensure([v.id, w.id])
            sr, si = v.z, (w.z if sgn > 0 else -w.z)
            pr, pi_ = (sr * cr - si * ci, sr * ci + si * cr) if L > 1 and int(const * L) % L else (sr, si)
        else:
            pr, pi_ = cr, ci
        az, bz = zr(a), zr(b)
        RE.append(az * pr - bz * pi_)
        IM.append(az * pi_ + bz * pr)
    re = z3.Sum(RE) if RE else z3.RealVal(0)
    im = z3.Sum(IM) if IM else z3.RealVal(0)
    return re, im


LIN_SOLVERS = {}


def reduce_abs(p):
    """rewrite |x|^2 -> x^2 for absolute-value atoms"""
    if not ABSQ or not any(v in ABSQ for m in p.t for v, e in m):
        return p
    return _reduce_sqrt(p, ABSQ)


def clear_inverses(polys):
    """Multiply a family of polynomials by the common power of every inverse-atom's denominator and use w*P = 1:
    with d = sum_j d_j w^j (j <= e),  d * P^e = sum_j d_j P^(e-j).  Zero-ness of the family is preserved (P != 0)."""
    polys = list(polys)
    for _ in range(8):
        ws = set()
        for p in polys:
            for m in p.t:
                for v, e in m:
                    if v in INV and e > 0:
                        ws.add(v)
        if not ws:
            break
        w = min(ws)
        pn = INV[w]
        emax = max((e for p in polys for m in p.t for v, e in m if v == w), default=0)
        out = []
        for p in polys:
            acc = P0
            for m, c in p.t.items():
                j = 0
                rest = []
                for v, e in m:
                    if v == w:
                        j = e
                    else:
                        rest.append((v, e))
                acc = acc + Poly({tuple(rest): c}) * pn.pow(emax - j)
            out.append(acc)
        polys = out
    return polys


def roots_linear_zero(D):
    """Sufficient test for D == 0 decided by z3 in pure linear real arithmetic: group the terms of D by the symbolic
    part of their phase; inside a group, for every monomial mu of the coefficient polynomials the rational numbers
    (a_k, b_k) multiplying e(k/L) must satisfy  sum_k (a_k + i b_k) zeta^k = 0, which z3 decides from the linear
    theorems about roots of unity (conjugate symmetry, vanishing subgroup/coset sums).  Returns True iff every such
    statement is entailed (unsat of its negation)."""
    groups = {}
    L = 1
    for k, (re, im) in D.t.items():
        const = k.t.get((), Fraction(0))
        sym = Poly({m: cf for m, cf in k.t.items() if m != ()})
        groups.setdefault(sym, []).append((const, re, im))
        L = L * const.denominator // math.gcd(L, const.denominator)
    cs, lin, nl = _root_atoms(L)
    disj = []
    for sym, terms in groups.items():
        monos = set()
        for const, re, im in terms:
            monos.update(re.t)
            monos.update(im.t)
        for mu in monos:
            RE, IM = [], []
            for const, re, im in terms:
                a, b = re.t.get(mu, 0), im.t.get(mu, 0)
                c_, s_ = cs[int(const * L) % L]
                if a:
                    RE.append(zval(Fraction(a)) * c_)
                    IM.append(zval(Fraction(a)) * s_)
                if b:
                    RE.append(zval(Fraction(-b)) * s_)
                    IM.append(zval(Fraction(b)) * c_)
            if RE:
                disj.append(z3.Sum(RE) != 0)
            if IM:
                disj.append(z3.Sum(IM) != 0)
    if not disj:
        return True
    sol = LIN_SOLVERS.get(L)
    if sol is None:
        sol = z3.Solver()
        sol.set('timeout', 20000)
        sol.add(*lin)
        LIN_SOLVERS[L] = sol
    STATS.queries += 1
    t0 = time.time()
    sol.push()
    sol.add(z3.Or(*disj))
    r = str(sol.check())
    sol.pop()
    STATS.solver_s += time.time() - t0
    return r == 'unsat'


# ----------------------------------------------------------------------------- numeric evaluation (validation / replay)
class Env:
    """Numeric environment: input variables from a dict, atoms by their defining function or the model."""

    def __init__(self, values, model=None):
        self.values = values          # var id -> float
        self.model = model
        self.cache = {}

    def __call__(self, vid):
        if vid in self.cache:
            return self.cache[vid]
        if vid in self.values:
            r = self.values[vid]
        else:
            v = VARS[vid]
            if v.ev is not None:
                r = v.ev(self)
            elif v.kind == 'ite':
                r = self._ite(v)
            elif self.model is not None:
                r = model_float(self.model, v.z)
            else:
                raise KeyError(v.name)
        self.cache[vid] = r
        return r

    def _ite(self, v):
        d = v.defs[0]          # v == If(f, a, b)
        return eval_z3(d.arg(1), self)


def eval_z3(e, env):
    """Numerically evaluate a z3 arithmetic/boolean term under Env (vars by name)."""
    if z3.is_rational_value(e):
        return e.numerator_as_long() / e.denominator_as_long()
    if z3.is_int_value(e):
        return e.as_long()
    if z3.is_true(e):
        return True
    if z3.is_false(e):
        return False
    k = e.decl().kind()
    ch = e.children()
    if z3.is_const(e):
        name = e.decl().name()
        v = BYNAME.get(name)
        if v is not None:
            return env(v.id)
        if env.model is not None:
            return model_float(env.model, e)
        raise KeyError(name)
    a = [eval_z3(c, env) for c in ch]
    K = z3
    if k == K.Z3_OP_ADD: return sum(a)
    if k == K.Z3_OP_SUB: return a[0] - sum(a[1:]) if len(a) > 1 else -a[0]
    if k == K.Z3_OP_UMINUS: return -a[0]
    if k == K.Z3_OP_MUL:
        r = 1
        for x in a: r *= x
        return r
    if k == K.Z3_OP_DIV: return a[0] / a[1]
    if k == K.Z3_OP_IDIV: return a[0] // a[1]
    if k == K.Z3_OP_MOD: return a[0] % a[1]
    if k == K.Z3_OP_TO_REAL: return a[0]
    if k == K.Z3_OP_TO_INT: return math.floor(a[0])
    if k == K.Z3_OP_ITE: return a[1] if a[0] else a[2]
    if k == K.Z3_OP_LE: return a[0] <= a[1]
    if k == K.Z3_OP_LT: return a[0] < a[1]
    if k == K.Z3_OP_GE: return a[0] >= a[1]
    if k == K.Z3_OP_GT: return a[0] > a[1]
    if k == K.Z3_OP_EQ: return a[0] == a[1]
    if k == K.Z3_OP_DISTINCT: return a[0] != a[1]
    if k == K.Z3_OP_AND: return all(a)
    if k == K.Z3_OP_OR: return any(a)
    if k == K.Z3_OP_NOT: return not a[0]
    if k == K.Z3_OP_IMPLIES: return (not a[0]) or a[1]
    if k == K.Z3_OP_POWER: return a[0] ** a[1]
    raise SymxUnsupported(f'eval_z3: {e.decl()}')


def model_float(m, t):
    v = m.eval(t, model_completion=True)
    if z3.is_int_value(v):
        return v.as_long()
    if z3.is_rational_value(v):
        return v.numerator_as_long() / v.denominator_as_long()
    if z3.is_algebraic_value(v):
        return float(v.approx(20).as_fraction())
    raise SymxUnsupported(f'model value {v}')


def model_fraction(m, t):
    v = m.eval(t, model_completion=True)
    if z3.is_int_value(v):
        return Fraction(v.as_long())
    if z3.is_rational_value(v):
        return Fraction(v.numerator_as_long(), v.denominator_as_long())
    if z3.is_algebraic_value(v):
        return v.approx(20).as_fraction()
    raise SymxUnsupported(f'model value {v}')


def evalf(x, env):
    """Numeric value (float / complex) of SNum / SCx / SBool / python number under env."""
    if isinstance(x, SNum):
        r = x.p.evalf(env)
        return r
    if isinstance(x, SCx):
        s = 0j
        for k, (a, b) in x.t.items():
            s += complex(a.evalf(env), b.evalf(env)) * cmath.exp(2j * math.pi * k.evalf(env))
        return s
    if isinstance(x, SBool):
        return bool(eval_z3(x.f, env))
    return x

"""Check driver: ./check <ID> [--tier quick|thorough] [--replay PATH] [--only HARNESS] [--jobs N]

exit 0  every obligation of every configuration in the bound discharged (or a listed known finding)
exit 1  a solver counterexample that replays on the real code (VIOLATION line printed)
exit 2  inconclusive (unknown / timeout / unsupported / non-reproducing model / shim mismatch): nothing is claimed
"""
import argparse, hashlib, importlib, json, os, random, re, signal, sys, time, traceback, types
from concurrent.futures import ProcessPoolExecutor, as_completed
from fractions import Fraction

VERIF = os.path.dirname(os.path.dirname(os.path.abspath(__file__)))
sys.path.insert(0, VERIF)

import z3
import numpy as rnp
from symx import core, arrays, loader, world, stubs

_LOADER = [None]


def sym_pkg():
    if _LOADER[0] is None:
        _LOADER[0] = loader.Loader(shims=stubs.shims())
        loader.CURRENT[0] = _LOADER[0]
    return _LOADER[0].pkg


def ob_class(name):
    return re.sub(r'\[[^\]]*\]', '', name)


class Timeout(BaseException):
    pass


def _alarm(sig, frm):
    raise Timeout()


def model_values(m, c, inputs):
    vals = {}
    for nm, v in inputs.items():
        if v.id in c.ensured:
            fr = core.model_fraction(m, v.z)
            vals[nm] = [fr.numerator, fr.denominator]
    return vals


def env_from(values):
    d = {}
    for nm, v in values.items():
        key = ('in', nm)
        if key in core.BYKEY:
            d[core.BYKEY[key].id] = float(Fraction(v[0], v[1])) if isinstance(v, (list, tuple)) else float(v)
    return core.Env(d)


def _raised_in_lentil(exc):
    """True if some frame of the exception's traceback runs lentil source (the real package of this run)."""
    import traceback as _tb
    root = os.path.join(os.path.abspath(loader.repo_root()), 'lentil') + os.sep
    try:
        return any(os.path.abspath(fs.filename).startswith(root) for fs in _tb.extract_tb(exc.__traceback__))
    except Exception:
        return False


def run_concrete(hrun, cfg, values, seed=0):
    """Run the harness body on the real lentil with numbers. -> (ConcWorld, exception or None)"""
    W = world.ConcWorld(loader.real_lentil(), values, seed=seed)
    exc = None
    try:
        with rnp.errstate(all='ignore'):
            import warnings
            with warnings.catch_warnings():
                warnings.simplefilter('ignore')
                hrun(W, cfg)
    except world.AssumptionViolated:
        exc = 'assumption'
    except Exception as e:
        exc = e
    return W, exc


def run_config(pid, hname, cfg, tier, seed, opts):
    """Symbolically execute one configuration. Returns a JSON-able dict."""
    t0 = time.time()
    mod = importlib.import_module(f'harness.{pid.lower()}')
    hrun = mod.HARNESSES[hname]['run']
    hopts = mod.HARNESSES[hname]
    pkg = sym_pkg()
    rng = random.Random(hash((seed, json.dumps(cfg, sort_keys=True))) & 0xffffffff)
    core.TIMEOUT_MS[0] = hopts.get('query_timeout_ms', 60000 if tier == 'quick' else 180000)
    q0, s0, u0 = core.STATS.queries, core.STATS.solver_s, core.STATS.unknown
    res = {'harness': hname, 'cfg': cfg, 'paths': 0, 'obligations': 0, 'discharged': 0, 'normal_form': 0,
           'trivial': 0, 'candidates': [], 'inconclusive': [], 'validation': {'cases': 0, 'disagreements': 0},
           'functions': [], 'samples': [], 'nontrivial': 0}
    worlds = []
    funcs = set()
    codes = _LOADER[0].functions()
    first = [True]

    def prof(frame, event, arg):
        if event == 'call':
            nm = codes.get(frame.f_code)
            if nm:
                funcs.add(nm)

    def body():
        W = world.SymWorld(pkg, small=hopts.get('small'))
        worlds[:] = [W]                    # only the current path's world is needed
        if first[0]:
            sys.setprofile(prof)
        try:
            import warnings
            with rnp.errstate(all='ignore'), warnings.catch_warnings():
                warnings.simplefilter('ignore')          # concrete sub-computations (real numpy) of degenerate configurations
                hrun(W, cfg)
        finally:
            if first[0]:
                sys.setprofile(None)
                first[0] = False
        return W

    def on_path(c, outcome):
        W = worlds[-1]
        res['paths'] += 1
        tag, val = outcome
        if tag == 'raise':
            # an exception escaped the harness body: the property's harness did not expect it on this path
            r, m = c.model()
            nm = f'exception:{type(val).__name__}'
            if r == 'sat':
                W._record(nm, 'sat', W.model_inputs(m))
                # the solver's model is often the all-zero corner; generic points of the same path are replayed as well
                for _ in range(2):
                    sm = W.sample(tries=6, solver_fallback=False)
                    if sm is not None:
                        W.obs.append((nm, 'sat', sm[0]))
            elif r == 'unknown':
                W._record(nm, 'unknown')
            W.notes['exception'] = ''.join(traceback.format_exception_only(type(val), val)).strip()[:300]
            W.notes['tb'] = ''.join(traceback.format_tb(val.__traceback__)[-3:])[-600:]
        if c.unknown_branch:
            # a branch whose feasibility z3 could not decide is explored anyway (over-approximation: a spurious path can only
            # yield candidates that the replay on the real code filters out); counted, not inconclusive
            res['unknown_branches'] = res.get('unknown_branches', 0) + c.unknown_branch
        for name, status, detail in W.obs:
            res['obligations'] += 1
            if status.startswith('unsat'):
                res['discharged'] += 1
                if status == 'unsat-normal-form':
                    res['normal_form'] += 1
                elif status in ('unsat-trivial', 'unsat-concrete', 'unsat-concrete-only'):
                    res['trivial'] += 1
                else:
                    res['nontrivial'] += 1
            elif status == 'sat':
                res['candidates'].append({'ob': name, 'values': detail, 'path': res['paths'], 'note': W.notes.get('exception')})
            elif status == 'skipped-after-sat':
                res['obligations'] -= 1
            elif status == 'concrete-fail':
                r, m = c.model()
                if r == 'sat':
                    res['candidates'].append({'ob': name, 'values': W.model_inputs(m), 'path': res['paths'], 'detail': detail})
                    # the solver's model tends to give distinct inputs equal values (which can hide an identity that fails);
                    # generic points of the same path are replayed as well
                    for _ in range(2):
                        sm = W.sample(tries=6, solver_fallback=False)
                        if sm is not None:
                            res['candidates'].append({'ob': name, 'values': sm[0], 'path': res['paths'], 'detail': detail})
                elif r == 'unknown':
                    res['inconclusive'].append({'why': 'unknown', 'ob': name})
            else:
                res['inconclusive'].append({'why': 'unknown', 'ob': name})
        # translator validation on the first paths of each configuration
        if res['validation']['cases'] < hopts.get('validate_paths', 2) and tag == 'ok' and not opts.get('no_validate') and not cfg.get('_novalidate'):
            sm = W.sample()
            if sm is not None:
                vals, env = sm
                CW, exc = run_concrete(hrun, cfg, vals, seed)
                conly = [(n, d) for n, st, d in CW.obs if st == 'fail-concrete-only']
                if conly:
                    res['candidates'].append({'ob': conly[0][0], 'values': vals, 'path': res['paths']})
                # an obligation that fails on the real code at this sampled point although the symbolic run discharged it (an effect
                # the model does not carry, e.g. numpy aliasing of a non-copying asarray): a candidate like any other, replayed below
                cfail = [n for n, st, d in CW.obs if st == 'fail']
                discharged_sym = {n for n, st, d in W.obs if st.startswith('unsat')}
                for n in cfail[:3]:
                    if n in discharged_sym:
                        res['candidates'].append({'ob': n, 'values': vals, 'path': res['paths'], 'note': 'fails on the real code at a sampled point of a path on which the symbolic run discharged it'})
                if exc is not None and exc != 'assumption' and _raised_in_lentil(exc):
                    # the real code raises at a point of a path that ended normally in the symbolic run: replayed like any candidate
                    # (an exception raised by the harness's own reference arithmetic, e.g. math.exp overflow, is not one)
                    res['candidates'].append({'ob': f'exception:{type(exc).__name__}', 'values': vals, 'path': res['paths'],
                                              'note': 'raised in the concrete validation run: ' + repr(exc)[:200]})
                if exc is None:
                    res['validation']['cases'] += 1
                    bad = []
                    for nm, g in W.got.items():
                        if nm in CW.got:
                            try:
                                sv = complex(core.evalf(g, env)) if not isinstance(g, (bool, core.SBool)) else core.evalf(g, env)
                                cv = complex(CW.got[nm]) if not isinstance(CW.got[nm], (bool, rnp.bool_)) else bool(CW.got[nm])
                            except (TypeError, ValueError, KeyError, ZeroDivisionError, OverflowError) as e:
                                continue
                            if isinstance(sv, complex) and isinstance(cv, complex):
                                if abs(sv - cv) > 1e-7 * max(1.0, abs(sv), abs(cv)):
                                    bad.append((nm, str(sv), str(cv)))
                            elif sv != cv:
                                bad.append((nm, str(sv), str(cv)))
                    if bad:
                        res['validation']['disagreements'] += 1
                        res['inconclusive'].append({'why': 'shim-mismatch', 'values': vals, 'diffs': bad[:4]})
        if len(res['samples']) < 2:
            for name, status, detail in W.obs[:2]:
                res['samples'].append({'harness': hname, 'cfg': cfg, 'path': res['paths'], 'obligation': name, 'verdict': status})

    signal.signal(signal.SIGALRM, _alarm)
    signal.alarm(int(hopts.get('config_timeout_s', 400 if tier == 'quick' else 1800)))
    try:
        if cfg.get('_concrete'):
            # a configuration the encoding does not reach (said in the harness): the whole body is a concrete-only obligation,
            # evaluated on the real code at sampled points - counted as such, never as a solver verdict
            done = 0
            for k in range(int(cfg['_concrete']) * 3):
                CW, exc = run_concrete(hrun, cfg, {}, seed * 1000 + k + 1)
                if exc == 'assumption':
                    continue
                done += 1
                res['paths'] += 1
                for name, status, detail in CW.obs:
                    res['obligations'] += 1
                    if status in ('fail', 'fail-concrete-only'):
                        res['candidates'].append({'ob': name, 'values': dict(CW.used), 'path': res['paths'], 'note': 'concrete-only configuration'})
                    else:
                        res['discharged'] += 1
                        res['trivial'] += 1
                if exc is not None and _raised_in_lentil(exc):
                    res['candidates'].append({'ob': f'exception:{type(exc).__name__}', 'values': dict(CW.used), 'path': res['paths'], 'note': repr(exc)[:200]})
                if done >= int(cfg['_concrete']):
                    break
            res['concrete_only_points'] = done
        else:
            core.explore(body, max_paths=hopts.get('max_paths', 3000), on_path=on_path)
    except Timeout:
        res['inconclusive'].append({'why': 'timeout'})
    except core.Budget as e:
        res['inconclusive'].append({'why': f'budget: {e}'})
    except SymxUnsupportedT as e:
        res['inconclusive'].append({'why': f'unsupported: {e}', 'tb': traceback.format_exc()[-800:]})
    finally:
        signal.alarm(0)
        sys.setprofile(None)
        core.CUR[0] = None
    # the symbolic run could not be completed (unsupported operation, budget): nothing is claimed, but the harness is still run
    # concretely on the real code at a few generic points; an obligation failing there is a violation like any other
    if any(str(i.get('why', '')).startswith(('unsupported', 'timeout', 'budget', 'harness-error')) for i in res['inconclusive']):
        for k in range(4):
            CW, exc = run_concrete(hrun, cfg, {}, seed * 1000 + k + 1)
            if exc == 'assumption':
                continue
            bad = [n for n, st, d in CW.obs if st in ('fail', 'fail-concrete-only')]
            if bad or (exc is not None):
                res['candidates'].append({'ob': bad[0] if bad else f'exception:{type(exc).__name__}', 'values': dict(CW.used), 'path': 0,
                                          'note': 'concrete fallback after an inconclusive symbolic run'})
                break
    # replay candidates on the real code
    confirmed = []
    seen = set()
    pending = {}
    for cand in res['candidates']:
        key = (ob_class(cand['ob']),)
        if key in seen:
            continue
        CW, exc = run_concrete(hrun, cfg, cand['values'], seed)
        fails = [(n, d) for n, st, d in CW.obs if st in ('fail', 'fail-concrete-only')]
        if exc is not None and exc != 'assumption':
            fails.append((f'exception:{type(exc).__name__}', {'exception': repr(exc)[:300]}))
        if fails:
            seen.add(key)
            pending.pop(key, None)
            confirmed.append({'ob': cand['ob'], 'values': cand['values'], 'replay_failures': [{'ob': n, 'detail': d} for n, d in fails[:6]]})
        else:
            pending.setdefault(key, {'why': 'non-reproducing', 'ob': cand['ob'], 'values': cand['values'],
                                     'exc': repr(exc) if exc is not None else None})
    res['inconclusive'].extend(pending.values())
    res['confirmed'] = confirmed
    res['candidates'] = len(res['candidates'])
    res['functions'] = sorted(funcs)
    res['queries'] = core.STATS.queries - q0
    res['solver_s'] = round(core.STATS.solver_s - s0, 3)
    res['unknown'] = core.STATS.unknown - u0
    res['wall_s'] = round(time.time() - t0, 3)
    return res


SymxUnsupportedT = core.SymxUnsupported


def _worker(args):
    try:
        return run_config(*args)
    except BaseException as e:
        return {'harness': args[1], 'cfg': args[2], 'paths': 0, 'obligations': 0, 'discharged': 0, 'normal_form': 0,
                'trivial': 0, 'nontrivial': 0, 'candidates': 0, 'confirmed': [], 'validation': {'cases': 0, 'disagreements': 0},
                'functions': [], 'samples': [], 'queries': 0, 'solver_s': 0, 'unknown': 0, 'wall_s': 0,
                'inconclusive': [{'why': f'harness-error: {type(e).__name__}: {e}', 'tb': traceback.format_exc()[-1500:]}]}


def _child(conn, task):
    try:
        r = _worker(task)
    except BaseException as e:
        r = None
    try:
        conn.send(r)
    finally:
        conn.close()


def _failed(task, why):
    return {'harness': task[1], 'cfg': task[2], 'paths': 0, 'obligations': 0, 'discharged': 0, 'normal_form': 0,
            'trivial': 0, 'nontrivial': 0, 'candidates': 0, 'confirmed': [], 'validation': {'cases': 0, 'disagreements': 0},
            'functions': [], 'samples': [], 'queries': 0, 'solver_s': 0, 'unknown': 0, 'wall_s': 0, 'inconclusive': [{'why': why}]}


def run_pool(tasks, jobs, mod, tier, fresh=None, budget_s=None):
    """One forked process per configuration (the parent has the packages loaded), killed on a hard wall-clock limit:
    a solver call that ignores its own timeout cannot stall the check."""
    import multiprocessing as mp
    from multiprocessing.connection import wait
    sym_pkg()
    loader.real_lentil()
    ctx = mp.get_context('fork')
    pending = list(enumerate(tasks))[::-1]
    running = {}
    results = [None] * len(tasks)
    t_start = time.time()
    found = [False]
    while pending or running:
        if budget_s and found[0] and time.time() - t_start > budget_s:
            # a violation that no known finding explains has been replayed and the wall budget is spent: what is left would only add
            # to an answer that is already "exit 1" (on a changed tree the remaining queries tend to run into their timeouts)
            for conn, (p, idx, task, dl) in list(running.items()):
                p.kill()
                p.join(5)
                conn.close()
                results[idx] = _failed(task, 'not run: wall budget reached after a replayed violation')
            running.clear()
            for idx, task in pending:
                results[idx] = _failed(task, 'not run: wall budget reached after a replayed violation')
            pending = []
            break
        while pending and len(running) < jobs:
            idx, task = pending.pop()
            pr, pw = ctx.Pipe(duplex=False)
            p = ctx.Process(target=_child, args=(pw, task), daemon=True)
            p.start()
            pw.close()
            h = mod.HARNESSES[task[1]]
            limit = h.get('config_timeout_s', 400 if tier == 'quick' else 1800) + 90
            running[pr] = (p, idx, task, time.time() + limit)
        ready = wait(list(running), timeout=1.0)
        for conn in ready:
            p, idx, task, dl = running.pop(conn)
            try:
                r = conn.recv()
            except (EOFError, OSError):
                r = None
            conn.close()
            p.join(5)
            results[idx] = r if r is not None else _failed(task, 'worker died')
            if fresh is not None and r is not None and not found[0] and fresh(r):
                found[0] = True
        now = time.time()
        for conn in [c for c, v in running.items() if v[3] < now]:
            p, idx, task, dl = running.pop(conn)
            p.kill()
            p.join(5)
            conn.close()
            results[idx] = _failed(task, 'hard-timeout (solver ignored its limit)')
    return results


def load_known():
    p = os.path.join(VERIF, 'known_findings.json')
    if not os.path.exists(p):
        return []
    return json.load(open(p))['findings']


def match_known(entry, pid, hname, cfg, obname):
    if entry.get('kind') != 'known' or entry['property'] != pid:
        return False
    if entry.get('harness') and entry['harness'] != hname:
        return False
    if entry.get('ob') and not re.fullmatch(entry['ob'], ob_class(obname)):
        return False
    for k, allowed in (entry.get('cfg') or {}).items():
        v = cfg.get(k)
        if isinstance(allowed, list):
            if v not in allowed:
                return False
        elif v != allowed:
            return False
    pred = entry.get('cfg_expr')
    if pred and not eval(pred, {'cfg': cfg, '__builtins__': {'len': len, 'any': any, 'all': all, 'min': min, 'max': max, 'sum': sum, 'tuple': tuple, 'abs': abs}}):
        return False
    return True


def main(argv=None):
    ap = argparse.ArgumentParser()
    ap.add_argument('pid')
    ap.add_argument('--tier', default=os.environ.get('VERIF_TIER', 'quick'))
    ap.add_argument('--replay')
    ap.add_argument('--only')
    ap.add_argument('--jobs', type=int, default=int(os.environ.get('VERIF_JOBS', '16')))
    ap.add_argument('--limit', type=int)
    ap.add_argument('--no-validate', action='store_true')
    ap.add_argument('--verbose', '-v', action='store_true')
    ap.add_argument('--no-evidence', action='store_true')
    a = ap.parse_args(argv)
    pid = a.pid.upper()
    seed = int(os.environ.get('VERIF_SEED', '0'))
    tier = a.tier if a.tier in ('quick', 'thorough') else 'quick'
    mod = importlib.import_module(f'harness.{pid.lower()}')
    if a.replay:
        return replay(pid, mod, a.replay)
    t0 = time.time()
    tasks = []
    totals = {}
    for hname, h in mod.HARNESSES.items():
        if a.only and hname not in a.only.split(','):
            continue
        cfgs, total, exhaustive = h['configs'](tier, seed)
        if a.limit:
            cfgs = cfgs[:a.limit]
        totals[hname] = {'configs_total': total, 'configs_run': len(cfgs), 'exhaustive': bool(exhaustive and len(cfgs) == total)}
        for cfg in cfgs:
            tasks.append((pid, hname, cfg, tier, seed, {'no_validate': a.no_validate}))
    known = load_known()

    def fresh(r):
        for c in r.get('confirmed') or []:
            names = [f['ob'] for f in c['replay_failures']] or [c['ob']]
            if any(not any(match_known(k, pid, r['harness'], r['cfg'], n) for k in known) for n in names):
                return True
        return False
    budget = float(os.environ.get('VERIF_WALL_AFTER_VIOLATION', '600' if tier == 'quick' else '3600'))
    results = run_pool(tasks, max(1, a.jobs), mod, tier, fresh=fresh, budget_s=budget)
    results.sort(key=lambda r: (r['harness'], json.dumps(r['cfg'], sort_keys=True)))
    violations, known_hits, inconc = [], {}, []
    for r in results:
        for c in r['confirmed']:
            # every obligation that fails on the real code in this replay is looked up on its own: a listed finding never
            # hides a different failure of the same configuration
            names = [f['ob'] for f in c['replay_failures']] or [c['ob']]
            hits, fresh = {}, []
            for n in names:
                k = next((k for k in known if match_known(k, pid, r['harness'], r['cfg'], n)), None)
                if k is None:
                    fresh.append(n)
                else:
                    hits[k['id']] = k
            if fresh:
                if c['ob'] not in fresh:
                    c = dict(c, ob=fresh[0])
                violations.append((r, c))
            else:
                for hid, k in hits.items():
                    known_hits.setdefault(hid, [k, 0])[1] += 1
        for i in r['inconclusive']:
            inconc.append((r, i))
    rdir = os.path.join(VERIF, 'replays', pid)
    os.makedirs(rdir, exist_ok=True)
    if not a.only and not a.limit:
        for fn in os.listdir(rdir):
            if fn.endswith('.json'):
                os.remove(os.path.join(rdir, fn))
    for hid, (k, n) in sorted(known_hits.items()):
        print(f"KNOWN-FINDING: property={pid} {k['what']} [{hid}; re-found in {n} configuration(s)]")
    printed = set()
    for r, c in violations:
        key = (r['harness'], ob_class(c['ob']))
        blob = {'property': pid, 'harness': r['harness'], 'cfg': r['cfg'], 'values': c['values'], 'obligation': c['ob'],
                'replay_failures': c['replay_failures']}
        h = hashlib.sha1(json.dumps(blob, sort_keys=True).encode()).hexdigest()[:10]
        path = os.path.join(VERIF, 'replays', pid, f"{r['harness']}-{h}.json")
        if key in printed and len(printed) > 40:
            continue
        json.dump(blob, open(path, 'w'), indent=1)
        if key not in printed:
            print(f'VIOLATION property={pid} replay={path}')
            print(f"  harness={r['harness']} obligation={c['ob']} cfg={json.dumps(r['cfg'])}")
            print(f"  real-code failures: {json.dumps(c['replay_failures'][:2])[:400]}")
            printed.add(key)
    for r, i in inconc[:12]:
        print(f"INCONCLUSIVE harness={r['harness']} cfg={json.dumps(r['cfg'])} {json.dumps(i)[:420]}")
    if len(inconc) > 12:
        print(f'... {len(inconc)} inconclusive items in total')
    agg = lambda k: sum(r[k] for r in results)
    wall = time.time() - t0
    status = 1 if violations else (2 if inconc else 0)
    if not a.no_evidence:
        write_evidence(pid, mod, tier, seed, results, totals, known_hits, violations, inconc, wall)
    print(f"{pid} tier={tier} configs={len(results)} paths={agg('paths')} obligations={agg('obligations')} "
          f"discharged={agg('discharged')} (normal-form {agg('normal_form')}, trivial {agg('trivial')}, by search {agg('nontrivial')}) "
          f"queries={agg('queries')} solver_s={agg('solver_s'):.1f} violations={len(violations)} known={sum(n for _, n in known_hits.values())} "
          f"inconclusive={len(inconc)} wall={wall:.1f}s -> exit {status}")
    if a.verbose:
        for r in results:
            print(json.dumps({**{k: r[k] for k in ('harness', 'cfg', 'paths', 'obligations', 'discharged', 'wall_s')}, 'validated': r['validation']['cases']}))
    return status


def write_evidence(pid, mod, tier, seed, results, totals, known_hits, violations, inconc, wall):
    agg = lambda k: sum(r[k] for r in results)
    funcs = sorted(set(f for r in results for f in r['functions']))
    samples = []
    for r in results:
        for s in r['samples']:
            if len(samples) < 6:
                samples.append(s)
    for r, c in violations[:3]:
        samples.append({'counterexample': {'harness': r['harness'], 'cfg': r['cfg'], 'values': c['values'], 'obligation': c['ob']}})
    if not samples:
        samples = [{'note': 'no configuration ran'}]
    distinct = len(set((r['harness'], json.dumps(r['cfg'], sort_keys=True)) for r in results if r['nontrivial'] + r['normal_form'] > 0))
    cov = {
        'explanation': ('Bounded symbolic execution of the real lentil source (loaded unmodified from the repo on this run, '
                        'numpy replaced by the symx shim) + SMT (z3): per configuration and per feasible path every obligation '
                        'is discharged by a z3 query over all values of the symbolic inputs; sat models are replayed on the real '
                        'code under the real numpy before being reported. ' + getattr(mod, 'EXPLANATION', '')),
        'functions_encoded': funcs,
        'bounds': getattr(mod, 'BOUNDS', {}).get(tier, getattr(mod, 'BOUNDS', {})),
        'harnesses': totals,
        'configs_run': len(results),
        'exhaustive': all(t['exhaustive'] for t in totals.values()) if totals else False,
        'paths': agg('paths'),
        'obligations': agg('obligations'),
        'discharged': agg('discharged'),
        'discharged_by_normal_form': agg('normal_form'),
        'discharged_trivially': agg('trivial'),
        'discharged_by_search': agg('nontrivial'),
        'queries': agg('queries'),
        'solver_s': round(agg('solver_s'), 2),
        'unknown': agg('unknown'),
        'inconclusive': len(inconc),
        'replayed_candidates': agg('candidates'),
        'known_findings_refound': {k: n for k, (_, n) in known_hits.items()},
        'translator_validation': {'cases': sum(r['validation']['cases'] for r in results),
                                  'disagreements': sum(r['validation']['disagreements'] for r in results)},
        'concrete_only': {'configurations': sum(1 for r in results if r.get('concrete_only_points') is not None),
                          'sampled_points': sum(r.get('concrete_only_points') or 0 for r in results),
                          'note': 'configurations outside the encoding (said in the harness): evaluated on the real code at sampled points, counted under discharged_trivially, never as a solver verdict'},
        'evaluations': agg('queries'),
        'distinct_nontrivial': agg('nontrivial') + agg('normal_form'),
        'distinct_configurations_with_symbolic_obligations': distinct,
        'rule': ('one evaluation = one solver query (branch feasibility or obligation); distinct_nontrivial = number of distinct '
                 '(harness, configuration, path, obligation) tuples whose formula mentions at least one symbolic input and was '
                 'discharged (by z3 search or by the ring normal form that z3 is handed), trivially folded ones excluded'),
        'samples': samples,
        'stubs': getattr(mod, 'STUBS', []),
    }
    ev = {'property_id': pid, 'tier': tier, 'seed': seed, 'level': 'other', 'coverage': cov,
          'assumptions': getattr(mod, 'ASSUMPTIONS', []) + COMMON_ASSUMPTIONS,
          'wall_s': round(wall, 2), 'violations': len(violations)}
    os.makedirs(os.path.join(VERIF, 'evidence'), exist_ok=True)
    json.dump(ev, open(os.path.join(VERIF, 'evidence', f'{pid}.json'), 'w'), indent=1)


COMMON_ASSUMPTIONS = [
    'A-REAL: IEEE doubles are modelled as exact reals; "to rounding" clauses are discharged as exact equalities over R',
    'A-DEC: float literals in the source are read as the decimal they are written as',
    'numpy structural operations (views, broadcasting, indexing, reshape) are executed by the real numpy on object arrays; '
    'value-touching numpy functions are modelled by the symx shim, validated on every run against the real numpy (translator_validation)',
    'claims hold only inside the stated bounds (array sizes, option sets); nothing is claimed outside them',
]


def replay(pid, mod, path):
    blob = json.load(open(path))
    hrun = mod.HARNESSES[blob['harness']]['run']
    CW, exc = run_concrete(hrun, blob['cfg'], blob['values'])
    fails = [(n, d) for n, st, d in CW.obs if st in ('fail', 'fail-concrete-only')]
    if exc is not None and exc != 'assumption':
        fails.append((f'exception:{type(exc).__name__}', {'exception': repr(exc)[:300]}))
    print(json.dumps({'cfg': blob['cfg'], 'values': blob['values']}))
    for n, d in fails[:10]:
        print('FAIL', n, json.dumps(d)[:300])
    if fails:
        print(f'VIOLATION property={pid} replay={path}')
        return 1
    print('replay: no obligation fails on the current tree')
    return 0


if __name__ == '__main__':
    sys.exit(main())

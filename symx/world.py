"""Harness-facing API.  A harness body `run(W, cfg)` is written once and executed
  * symbolically  (SymWorld: private lentil on the numpy shim, inputs = z3 variables, obligations -> solver), per path;
  * concretely    (ConcWorld: the real lentil under the real numpy, inputs = numbers) for replay of solver models and
                  for translator validation of the shim.
"""
import cmath, math, random, time, traceback, re, json, hashlib
from fractions import Fraction
import numpy as rnp
import z3
from . import core, arrays
from .core import SNum, SCx, SBool, SymxUnsupported, Poly, P0


class ObFail(Exception):
    pass


def _idx_name(name, idx):
    return name if idx == () else f'{name}[{",".join(map(str, idx))}]'


def _flatten(x):
    """-> list of (idx, element) for arrays / scalars / tuples."""
    if isinstance(x, rnp.ndarray):
        if x.shape == ():
            return [((), x[()])]
        return [(idx, x[idx]) for idx in rnp.ndindex(*x.shape)]
    if isinstance(x, (list, tuple)):
        out = []
        for i, e in enumerate(x):
            for idx, v in _flatten(e):
                out.append(((i,) + idx, v))
        return out
    return [((), x)]


class World:
    sym = False

    def __init__(self):
        self.obs = []          # per run: (name, status, detail)
        self.got = {}          # name -> got value (for validation)
        self.notes = {}

    # generic helpers usable from specs
    def sum(self, xs):
        acc = 0
        for x in xs:
            acc = acc + x
        return acc


class SymWorld(World):
    sym = True

    def __init__(self, pkg, small=None):
        super().__init__()
        self.lentil = pkg
        self.np = arrays.np
        self.inputs = {}       # name -> Var
        self.small = small
        self.rng = random.Random(12345)
        self.numeric_hits = 0
        self.failed_classes = set()
        core.WITNESS[0] = self._witness

    def mod(self, name):
        """submodule lentil.<name> of the private (symbolic) package"""
        from . import loader
        return loader.CURRENT[0]._get('lentil.' + name)

    # ---- inputs
    def real(self, name, pos=False, nonneg=False, lo=None, hi=None, nz=False):
        s = core.real_var(name, pos=pos, nonneg=nonneg, lo=lo, hi=hi, nz=nz)
        self.inputs[name] = core.BYKEY[('in', name)]
        return s

    def int(self, name, lo=None, hi=None):
        s = core.int_var(name, lo=lo, hi=hi)
        self.inputs[name] = core.BYKEY[('in', name)]
        return s

    def reals(self, name, shape, **kw):
        a = rnp.empty(shape, dtype=object)
        for idx in rnp.ndindex(*shape):
            a[idx] = self.real(name + '_' + '_'.join(map(str, idx)), **kw)
        r = a.view(arrays.SArr)
        r.ldtype = 'float'
        return r

    def complexes(self, name, shape):
        a = rnp.empty(shape, dtype=object)
        for idx in rnp.ndindex(*shape):
            n = name + '_' + '_'.join(map(str, idx))
            a[idx] = SCx({P0: (self.real(n + 'r').p, self.real(n + 'i').p)}).clean()
        r = a.view(arrays.SArr)
        r.ldtype = 'complex'
        return r

    def cx(self, name):
        return SCx({P0: (self.real(name + 'r').p, self.real(name + 'i').p)}).clean()

    def const(self, x):
        """An exact rational constant (Fraction / int / 'p/q' string)."""
        return SNum(Poly.const(Fraction(x)), isinstance(x, int))

    def assume(self, cond):
        if isinstance(cond, (bool, rnp.bool_)):
            if not cond:
                raise core.PathInfeasible()
            return
        core.ctx().assume(cond)
        if core.ctx().check() == 'unsat':
            raise core.PathInfeasible()

    # ---- value helpers for specs
    def e(self, turns):
        return core.unit(turns)

    def sqrt(self, x):
        return arrays.sqrt(x)

    def abs(self, x):
        return abs(x) if isinstance(x, (SNum, SCx)) else arrays.abs_(x)

    def abs2(self, z):
        z = SCx.of(z)
        return z.abs2()

    def exp(self, x):
        return arrays.e_exp(x) if isinstance(x, (SNum, SCx)) else math.exp(x)

    def cos(self, x):
        return arrays.e_cos(core.as_num(x)) if isinstance(x, SNum) else math.cos(x)

    def sin(self, x):
        return arrays.e_sin(core.as_num(x)) if isinstance(x, SNum) else math.sin(x)

    def poly_coeffs(self, expr, var):
        """{degree: Fraction} of a univariate polynomial in the input `var` (normal-form inspection)."""
        p = core.as_num(expr).p
        vid = core.as_num(var).p
        (m, c), = vid.t.items()
        v = m[0][0]
        out = {}
        for mono, cf in p.t.items():
            if any(w != v for w, e in mono):
                raise SymxUnsupported('not univariate')
            out[mono[0][1] if mono else 0] = cf
        return out

    def conj(self, z):
        return SCx.of(z).conjugate()

    def floor(self, x):
        return core.sx_floor(x)

    def ceil(self, x):
        return core.sx_ceil(x)

    def fix(self, x):
        return core.sx_fix(x)

    def ite(self, c, a, b):
        return core.ite(c, a, b)

    def min(self, a, b):
        return core.sx_min(a, b)

    def max(self, a, b):
        return core.sx_max(a, b)

    def array(self, x):
        return arrays.to_sarr(x)

    def zeros(self, shape, complex_=False):
        a = rnp.empty(shape, dtype=object)
        a[...] = 0
        r = a.view(arrays.SArr)
        r.ldtype = 'complex' if complex_ else 'float'
        return r

    def is_true(self, cond):
        """Decide a condition inside the harness (forks like lentil's own branches)."""
        return bool(cond)

    def concrete(self, x):
        """numeric numpy array of a result that carries no symbolic value (raises otherwise)"""
        return arrays.concrete(x)

    def no_ite_pruning(self):
        """do not ask the solver whether each if-then-else condition is already decided by the path (many clip/min atoms)"""
        core.PRUNE_ITE[0] = False

    def generic_nonzero(self):
        """count_nonzero treats values that are not identically zero as non-zero, adding that as an explicit assumption"""
        arrays.GENERIC_NONZERO[0] = True

    def float_constants(self):
        """sqrt of concrete numbers stays a float (as in numpy) instead of an exact algebraic atom: for harnesses whose
        obligations carry a tolerance anyway"""
        arrays.EXACT[0] = False

    def pi(self):
        return core.SPI

    # ---- obligations
    def _record(self, name, status, detail=None):
        self.obs.append((name, status, detail))

    def random_model(self, extra=()):
        """A model of assumptions + path condition with 'generic' input values where possible."""
        c = core.ctx()
        rng = self.rng
        cons = []
        for nm, v in self.inputs.items():
            if v.id not in c.ensured:
                continue
            if v.sort == 'I':
                cons.append(v.z == rng.randint(-3, 3))
            else:
                q = Fraction(rng.randint(-96, 96), 32)
                if v.info and v.info.get('pos'):
                    q = abs(q) + Fraction(1, 32)
                cons.append(v.z == core.zval(q))
        s = c.solver
        s.push()
        try:
            s.set('timeout', 1500)
            s.add(*extra)
            s.push()
            s.add(*cons)
            core.STATS.queries += 1
            if str(s.check()) == 'sat':
                m = s.model()
                s.pop()
                return m
            s.pop()
            kept = 0
            for f in cons:
                s.push()
                s.add(f)
                core.STATS.queries += 1
                if str(s.check()) == 'sat':
                    kept += 1
                else:
                    s.pop()
            r = str(s.check())
            m = s.model() if r == 'sat' else None
            for _ in range(kept):
                s.pop()
            return m
        finally:
            s.pop()
            s.set('timeout', core.TIMEOUT_MS[0])

    def _witness(self, f):
        """is there a sampled point of the current path (assumptions + path condition hold numerically) that satisfies f?"""
        for _ in range(3):
            sm = self.sample(tries=6, solver_fallback=False)
            if sm is None:
                return False
            try:
                if core.eval_z3(f, sm[1]):
                    return True
            except (KeyError, ZeroDivisionError, OverflowError, ValueError, SymxUnsupported, AttributeError):
                return False
        return False

    def sample(self, tries=12, solver_fallback=True):
        """A 'generic' point of the current path: random input values within their declared bounds that satisfy the
        assumptions and the path condition (checked numerically); the solver is asked only if sampling fails.
        -> (values {name: [num, den]}, Env) or None"""
        c = core.ctx()
        rng = self.rng
        names = [(nm, v) for nm, v in self.inputs.items() if v.id in c.ensured]
        for attempt in range(tries):
            vals, d = {}, {}
            # every third attempt the unbounded-below reals are scaled down together: thin regions around 0 (tolerance
            # guards, faint images) are otherwise never sampled
            mag = (Fraction(1), Fraction(1), Fraction(1, 10 ** 9), Fraction(1), Fraction(1, 10 ** 4), Fraction(1, 10 ** 12))[attempt % 6]
            for nm, v in names:
                info = v.info or {}
                lo, hi = info.get('lo'), info.get('hi')
                if v.sort == 'I':
                    a = -3 if lo is None else max(lo, -(1 << 16))
                    b = (a + 6) if hi is None else min(hi, a + 64)
                    q = Fraction(rng.randint(int(a), int(max(a, b))))
                else:
                    a = Fraction(lo) if lo is not None else (Fraction(1, 32) if info.get('pos') else (Fraction(0) if info.get('nonneg') else Fraction(-3)))
                    b = Fraction(hi) if hi is not None else a + 3
                    q = a + (b - a) * Fraction(rng.randint(1, 95), 96)
                    if mag != 1 and (lo is None or Fraction(lo) <= 0) and not info.get('pos') and nm.startswith(('img', 'a_', 'a', 'e_', 'v')) :
                        q = q * mag
                    if info.get('nz') and q == 0:
                        q = Fraction(1, 2)
                vals[nm] = [q.numerator, q.denominator]
                d[v.id] = float(q)
            env = core.Env(d)
            try:
                if all(core.eval_z3(f, env) for f in c.assumed) and all(core.eval_z3(f, env) for f in c.pc):
                    return vals, env
            except (KeyError, ZeroDivisionError, OverflowError, ValueError, SymxUnsupported, AttributeError):
                continue
        if not solver_fallback:
            return None
        m = self.random_model()
        if m is None:
            return None
        return self.model_inputs(m), self.env_of(m)

    def env_of(self, m):
        c = core.ctx()
        d = {}
        for nm, v in self.inputs.items():
            if v.id in c.ensured:
                d[v.id] = float(core.model_fraction(m, v.z))
        return core.Env(d, m)

    def _query(self, name, neg, numcheck=None):
        """neg: z3 formula of the obligation's negation; numcheck(env) -> True when the obligation is
        violated numerically (true cos/sin/sqrt) at a model of the path."""
        c = core.ctx()
        f = z3.simplify(neg)
        if z3.is_false(f):
            core.STATS.queries += 1
            self._record(name, 'unsat-trivial')
            return
        cls = re.sub(r'\[[^\]]*\]', '', name)
        if cls in self.failed_classes:
            self._record(name, 'skipped-after-sat')
            return
        # 1. a quick look by the solver: most obligations that hold are unsat within a second
        c.solver.set('timeout', 1500)
        try:
            r0, _m0 = c.model(neg)
        finally:
            c.solver.set('timeout', core.TIMEOUT_MS[0])
        if r0 == 'unsat':
            self._record(name, 'unsat')
            return
        # 2. generic points of the path, filtered numerically (true cos/sin/sqrt): cheap witnesses for non-identities
        if numcheck is not None:
            for attempt in range(2):
                sm = self.sample()
                if sm is None:
                    break
                vals, env = sm
                try:
                    bad = numcheck(env)
                except (KeyError, ZeroDivisionError, OverflowError, ValueError, SymxUnsupported):
                    bad = False
                if bad:
                    self.numeric_hits += 1
                    self.failed_classes.add(cls)
                    self._record(name, 'sat', vals)
                    return
        # 3. the solver decides (full budget)
        r, m = c.model(neg)
        if r == 'unsat':
            self._record(name, 'unsat')
        elif r == 'sat':
            m2 = None
            if self.small is not None:
                bounds = []
                for nm, v in self.inputs.items():
                    if v.id in c.ensured:
                        bounds += [v.z <= self.small, v.z >= -self.small]
                r2, m2 = c.model(neg, *bounds)
                if r2 != 'sat':
                    m2 = None
            self.failed_classes.add(cls)
            self._record(name, 'sat', self.model_inputs(m2 or m))
        else:
            self._record(name, 'unknown')

    def model_inputs(self, m):
        vals = {}
        c = core.ctx()
        for nm, v in self.inputs.items():
            if v.id in c.ensured:
                fr = core.model_fraction(m, v.z)
                vals[nm] = [fr.numerator, fr.denominator]
        return vals

    def ob(self, name, got, want):
        """Equality obligation (scalars or arrays of any shape, real or complex)."""
        g, w = _flatten(got), _flatten(want)
        if len(g) != len(w) or [i for i, _ in g] != [i for i, _ in w]:
            gs = getattr(got, 'shape', None)
            ws = getattr(want, 'shape', None)
            self._record(name + '.shape', 'concrete-fail', {'got_shape': str(gs), 'want_shape': str(ws)})
            return
        for (idx, a), (_, b) in zip(g, w):
            nm = _idx_name(name, idx)
            self.got[nm] = a
            self._ob1(nm, a, b)

    def _ob1(self, nm, a, b):
        if isinstance(a, (SBool, bool, rnp.bool_)) and isinstance(b, (SBool, bool, rnp.bool_)):
            neg = core.zb(a) != core.zb(b)
        elif isinstance(a, (SCx,) + core.PYCX) or isinstance(b, (SCx,) + core.PYCX):
            ar, ai = core.lower_cx(SCx.of(a))
            d = SCx.of(a) - SCx.of(b)
            if core.ABSQ and d.t:
                d = SCx({k: (core.reduce_abs(x), core.reduce_abs(y)) for k, (x, y) in d.t.items()}).clean()
            if not d.t:
                core.STATS.queries += 1
                self._record(nm, 'unsat-normal-form')
                return
            if core.INV:
                keys = list(d.t)
                cl = [core.reduce_abs(x) for x in core.clear_inverses([x for k in keys for x in d.t[k]])]
                d2 = SCx({k: (cl[2 * i], cl[2 * i + 1]) for i, k in enumerate(keys)}).clean()
                if not d2.t:
                    core.STATS.queries += 1
                    self._record(nm, 'unsat-normal-form')
                    return
            else:
                d2 = d
            if any(k.t.get((), Fraction(0)).denominator > 1 for k in d2.t) and core.roots_linear_zero(d2):
                self._record(nm, 'unsat')
                return
            dr, di = core.lower_cx(d)
            neg = z3.Or(dr != 0, di != 0)
            self._query(nm, neg, lambda env, d=d: abs(core.evalf(d, env)) > 1e-6)
            return
        else:
            if not isinstance(a, core.SNum) and not isinstance(b, core.SNum) and isinstance(a, core.PYNUM) and isinstance(b, core.PYNUM):
                ok = bool(a == b)
                self._record(nm, 'unsat-concrete' if ok else 'concrete-fail', None if ok else {'got': repr(a), 'want': repr(b)})
                return
            an, bn = core.as_num(a), core.as_num(b)
            if an is None or bn is None:
                ok = (a == b) if not isinstance(a, rnp.ndarray) else False
                self._record(nm, 'unsat-concrete' if ok else 'concrete-fail', None if ok else {'got': repr(a), 'want': repr(b)})
                return
            d = core.reduce_abs(an.p - bn.p)
            if d.is_zero():
                core.STATS.queries += 1
                self._record(nm, 'unsat-normal-form')
                return
            if d.is_const():
                self._record(nm, 'concrete-fail', {'got': repr(a), 'want': repr(b)})
                return
            if core.INV and core.reduce_abs(core.clear_inverses([d])[0]).is_zero():
                core.STATS.queries += 1
                self._record(nm, 'unsat-normal-form')
                return
            neg = core.zr(an.p) != core.zr(bn.p)
            self._query(nm, neg, lambda env, d=d: abs(d.evalf(env)) > 1e-6)
            return
        self._query(nm, neg)

    def ob_true(self, name, cond):
        if isinstance(cond, rnp.ndarray):
            for idx, v in _flatten(cond):
                self.ob_true(_idx_name(name, idx), v)
            return
        if isinstance(cond, (bool, rnp.bool_)):
            self._record(name, 'unsat-concrete' if cond else 'concrete-fail')
            return
        self._query(name, z3.Not(cond.f), lambda env, f=cond.f: not core.eval_z3(f, env))

    def ob_close(self, name, got, want, tol):
        g, w = _flatten(got), _flatten(want)
        if len(g) != len(w):
            self._record(name + '.shape', 'concrete-fail')
            return
        for (idx, a), (_, b) in zip(g, w):
            nm = _idx_name(name, idx)
            self.got[nm] = a
            d = core.as_num(a) - core.as_num(b)
            t = core.as_num(tol)
            c1, c2 = (d <= t), (-d <= t)
            if isinstance(c1, bool) and isinstance(c2, bool):
                self._record(nm, 'unsat-concrete' if (c1 and c2) else 'concrete-fail')
            else:
                self._query(nm, z3.Not(z3.And(core.zb(c1), core.zb(c2))))

    def ob_concrete(self, name, cond_fn):
        """An obligation that only the concrete run on the real code can evaluate (e.g. a numpy dtype): skipped here,
        checked on every replay / validation run."""
        self._record(name, 'unsat-concrete-only')

    def std_normal(self, seed, call, shape):
        from . import stubs
        g = stubs.Generator(seed)
        g.calls = call
        return g.standard_normal(shape)

    def poisson_draw(self, seed, call, lam):
        from . import stubs
        g = stubs.Generator(seed)
        g.calls = call
        return g._arr('poisson', getattr(lam, 'shape', ()), 'I', {'nonneg': True}, lambda z: [z >= 0], param=lam)

    def rng_events(self):
        return [e for e in core.ctx().events if e and e[0] == 'rng']

    def ob_fail(self, name, detail=None):
        """An outcome that violates the property on this path whatever the values (e.g. an exception)."""
        c = core.ctx()
        r, m = c.model()
        if r == 'sat':
            self._record(name, 'sat', self.model_inputs(m))
        elif r == 'unsat':
            self._record(name, 'unsat')
        else:
            self._record(name, 'unknown')

    def ob_ok(self, name):
        core.STATS.queries += 0
        self._record(name, 'unsat-concrete')

    def same(self, a, b):
        """identity of python objects (documented 'returns its out argument')."""
        return a is b


class ConcWorld(World):
    sym = False

    def __init__(self, pkg, values=None, seed=0, tol=1e-9):
        super().__init__()
        self.lentil = pkg
        self.np = rnp
        self.values = dict(values or {})
        self.rng = random.Random(seed)
        self.tol = tol
        self.used = {}

    def mod(self, name):
        import importlib
        return importlib.import_module('lentil.' + name)

    def _val(self, name, kind, pos=False, nonneg=False, lo=None, hi=None, nz=False):
        if name in self.values:
            v = self.values[name]
            if isinstance(v, (list, tuple)):
                v = Fraction(v[0], v[1])
            v = int(v) if kind == 'int' else float(v)
        else:
            if kind == 'int':
                a = -3 if lo is None else lo
                b = 3 if hi is None else hi
                v = self.rng.randint(a, b)
            else:
                a = (0.25 if pos else (0.0 if nonneg else -2.0)) if lo is None else float(Fraction(lo))
                b = (a + 3.0) if hi is None else float(Fraction(hi))
                v = round(self.rng.uniform(a, b) * 64) / 64
                if (pos or nz) and v == 0:
                    v = 0.5
        self.used[name] = v
        return v

    def real(self, name, **kw):
        return self._val(name, 'real', **kw)

    def int(self, name, lo=None, hi=None):
        return self._val(name, 'int', lo=lo, hi=hi)

    def reals(self, name, shape, **kw):
        a = rnp.empty(shape, dtype=float)
        for idx in rnp.ndindex(*shape):
            a[idx] = self.real(name + '_' + '_'.join(map(str, idx)), **kw)
        return a

    def complexes(self, name, shape):
        a = rnp.empty(shape, dtype=complex)
        for idx in rnp.ndindex(*shape):
            n = name + '_' + '_'.join(map(str, idx))
            a[idx] = complex(self.real(n + 'r'), self.real(n + 'i'))
        return a

    def cx(self, name):
        return complex(self.real(name + 'r'), self.real(name + 'i'))

    def const(self, x):
        f = Fraction(x)
        return int(f) if isinstance(x, int) else float(f)

    def assume(self, cond):
        if not cond:
            raise AssumptionViolated()

    def e(self, turns):
        return cmath.exp(2j * math.pi * turns)

    def sqrt(self, x):
        return rnp.sqrt(x)

    def abs(self, x):
        return rnp.abs(x)

    def abs2(self, z):
        return (z * rnp.conj(z)).real

    def exp(self, x):
        return math.exp(x)

    def cos(self, x):
        return math.cos(x)

    def sin(self, x):
        return math.sin(x)

    def conj(self, z):
        return rnp.conj(z)

    def floor(self, x): return math.floor(x)
    def ceil(self, x): return math.ceil(x)
    def fix(self, x): return math.trunc(x)
    def ite(self, c, a, b): return a if c else b
    def min(self, a, b): return min(a, b)
    def max(self, a, b): return max(a, b)
    def array(self, x): return rnp.asarray(x)
    def zeros(self, shape, complex_=False): return rnp.zeros(shape, dtype=complex if complex_ else float)
    def is_true(self, cond): return bool(cond)
    def concrete(self, x): return rnp.asarray(x)
    def no_ite_pruning(self):
        """do not ask the solver whether each if-then-else condition is already decided by the path (many clip/min atoms)"""
        core.PRUNE_ITE[0] = False

    def float_constants(self): pass
    def generic_nonzero(self): pass
    def no_ite_pruning(self): pass
    def pi(self): return math.pi

    def _record(self, name, status, detail=None):
        self.obs.append((name, status, detail))

    def ob(self, name, got, want):
        g, w = _flatten(got), _flatten(want)
        if len(g) != len(w) or [i for i, _ in g] != [i for i, _ in w]:
            self._record(name + '.shape', 'fail', {'got_shape': str(getattr(got, 'shape', None)), 'want_shape': str(getattr(want, 'shape', None))})
            return
        for (idx, a), (_, b) in zip(g, w):
            nm = _idx_name(name, idx)
            self.got[nm] = a
            try:
                a_, b_ = complex(a), complex(b)
                scale = max(1.0, abs(a_), abs(b_))
                ok = (a_ == b_) or abs(a_ - b_) <= self.tol * scale
                if a_ != a_ or b_ != b_:
                    ok = False
            except (TypeError, ValueError):
                ok = bool(a == b)
            self._record(nm, 'ok' if ok else 'fail', None if ok else {'got': repr(a), 'want': repr(b)})

    def ob_true(self, name, cond):
        if isinstance(cond, rnp.ndarray) and cond.shape != ():
            for idx, v in _flatten(cond):
                self.ob_true(_idx_name(name, idx), v)
            return
        self._record(name, 'ok' if bool(cond) else 'fail')

    def ob_close(self, name, got, want, tol):
        g, w = _flatten(got), _flatten(want)
        if len(g) != len(w):
            self._record(name + '.shape', 'fail')
            return
        for (idx, a), (_, b) in zip(g, w):
            nm = _idx_name(name, idx)
            self.got[nm] = a
            ok = abs(a - b) <= tol * (1 + 1e-6) + 1e-12
            self._record(nm, 'ok' if ok else 'fail', None if ok else {'got': repr(a), 'want': repr(b)})

    def ob_concrete(self, name, cond_fn):
        ok = bool(cond_fn())
        self._record(name, 'ok' if ok else 'fail-concrete-only')

    def std_normal(self, seed, call, shape):
        g = rnp.random.default_rng(seed)
        for _ in range(call):
            g.standard_normal(shape)
        return g.standard_normal(shape)

    def poisson_draw(self, seed, call, lam):
        return rnp.random.default_rng(seed).poisson(lam)

    def rng_events(self):
        return []

    def ob_fail(self, name, detail=None):
        self._record(name, 'fail', detail)

    def ob_ok(self, name):
        self._record(name, 'ok')

    def same(self, a, b):
        return a is b


class AssumptionViolated(Exception):
    pass

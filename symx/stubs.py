"""Environment stubs by contract: numpy.linalg, numpy.random, scipy.* as seen by lentil's source (DESIGN 2.5)."""
import types
import numpy as rnp
from . import core, arrays
from .core import SymxUnsupported


def shims():
    return {}

"""Environment stubs by contract: numpy.linalg, numpy.random, scipy.* as seen by lentil's source (DESIGN 2.5)."""
import types
import numpy as rnp
from . import core, arrays
from .core import SymxUnsupported
from .arrays import is_sym, to_sarr, concrete, try_concrete, np as shim


# ----------------------------------------------------------------------------- numpy.linalg
class _Linalg(types.ModuleType):
    def __getattr__(self, n):
        real = getattr(rnp.linalg, n)

        def g(*a, **k):
            if any(is_sym(x) for x in a):
                raise SymxUnsupported(f'numpy.linalg.{n} on symbolic data is not modelled')
            return real(*a, **k)
        return g


linalg = _Linalg('numpy.linalg')


def lstsq(A, b, rcond=None):
    """A concrete (after realisation at the C boundary): x = pinv(A) @ b with the real numpy pinv, b may be symbolic,
    so the solution is linear in the symbolic data (numpy's minimum-norm least squares)."""
    Ac = try_concrete(to_sarr(A)) if is_sym(A) else rnp.asarray(A)
    if Ac is None:
        raise SymxUnsupported('lstsq with a symbolic design matrix')
    if not is_sym(b):
        return rnp.linalg.lstsq(Ac, b, rcond=rcond)
    P = rnp.linalg.pinv(Ac)
    x = arrays.dot(P, to_sarr(b))
    return x, None, rnp.linalg.matrix_rank(Ac), None


def pinv(A, *a, **k):
    Ac = try_concrete(to_sarr(A)) if is_sym(A) else rnp.asarray(A)
    if Ac is None:
        raise SymxUnsupported('pinv of a symbolic matrix')
    return rnp.linalg.pinv(Ac, *a, **k)


linalg.lstsq = lstsq
linalg.pinv = pinv
shim.linalg = linalg


def shims():
    return {}

"""Environment stubs by contract: numpy.linalg, numpy.random, scipy.* as seen by lentil's source (DESIGN 2.5)."""
import types
import numpy as rnp
from . import core, arrays
from .core import SymxUnsupported
from .arrays import is_sym, to_sarr, concrete, try_concrete, np as shim


# ----------------------------------------------------------------------------- numpy.linalg
class _Linalg(types.ModuleType):
    def __getattr__(self, n):
        real = getattr(rnp.linalg, n)

        def g(*a, **k):
            if any(is_sym(x) for x in a):
                raise SymxUnsupported(f'numpy.linalg.{n} on symbolic data is not modelled')
            return real(*a, **k)
        return g


linalg = _Linalg('numpy.linalg')


def lstsq(A, b, rcond=None):
    """A concrete (after realisation at the C boundary): x = pinv(A) @ b with the real numpy pinv, b may be symbolic,
    so the solution is linear in the symbolic data (numpy's minimum-norm least squares)."""
    Ac = try_concrete(to_sarr(A)) if is_sym(A) else rnp.asarray(A)
    if Ac is None:
        raise SymxUnsupported('lstsq with a symbolic design matrix')
    if not is_sym(b):
        return rnp.linalg.lstsq(Ac, b, rcond=rcond)
    P = rnp.linalg.pinv(Ac)
    x = arrays.dot(P, to_sarr(b))
    return x, None, rnp.linalg.matrix_rank(Ac), None


def pinv(A, *a, **k):
    Ac = try_concrete(to_sarr(A)) if is_sym(A) else rnp.asarray(A)
    if Ac is None:
        raise SymxUnsupported('pinv of a symbolic matrix')
    return rnp.linalg.pinv(Ac, *a, **k)


linalg.lstsq = lstsq
linalg.pinv = pinv
shim.linalg = linalg


# ----------------------------------------------------------------------------- scipy (seen through lentil's imports)
import scipy as _scipy
import scipy.interpolate, scipy.integrate, scipy.ndimage, scipy.optimize, scipy.signal


class interp1d:
    """scipy.interpolate.interp1d(kind='linear', bounds_error=False, fill_value=v): piecewise-linear interpolant, fill outside.
    Concrete abscissae and query points (exact rational arithmetic on the decimal reading), symbolic ordinates / fill value;
    symbolic abscissae or query points are handled with if-then-else chains."""

    def __init__(self, x, y, kind='linear', copy=True, bounds_error=None, fill_value=float('nan'), assume_sorted=False, axis=-1):
        self.kind = kind
        if kind not in ('linear', 'slinear', 'quadratic', 'cubic'):
            raise SymxUnsupported(f"interp1d(kind={kind!r}) is not modelled")
        if kind in ('quadratic', 'cubic') and is_sym(x) and try_concrete(to_sarr(x)) is None:
            raise SymxUnsupported(f"interp1d(kind={kind!r}) with symbolic abscissae (the spline weights are realised with the real scipy on a concrete grid)")
        if not (is_sym(x) or is_sym(y) or is_sym(fill_value)):
            self.real = _scipy.interpolate.interp1d(x, y, kind=kind, copy=copy, bounds_error=bounds_error, fill_value=fill_value, assume_sorted=assume_sorted)
        else:
            self.real = None
        self.x = list(to_sarr(x).ravel()) if is_sym(x) else [v for v in rnp.asarray(x, dtype=float).ravel()]
        self.y = list(to_sarr(y).ravel()) if is_sym(y) else [v for v in rnp.asarray(y).ravel()]
        if len(self.x) != len(self.y):
            raise ValueError('x and y arrays must be equal in length along interpolation axis.')
        if len(self.x) < 2 and False:
            raise ValueError('x and y arrays must have at least 2 entries')
        self.fill = fill_value
        self.bounds_error = bounds_error

    def _spline_one(self, q):
        """spline kinds are linear in the ordinates: weights = the real scipy interpolant of the unit vectors at the concrete point"""
        from .core import SNum
        if isinstance(q, SNum):
            qc = q.const()
            if qc is None:
                raise SymxUnsupported('spline interp1d at a symbolic query point')
            q = float(qc)
        xs = [float(v.const()) if isinstance(v, SNum) else float(v) for v in self.x]
        if q < xs[0] or q > xs[-1]:
            return self.fill
        acc = 0
        for k in range(len(xs)):
            e = rnp.zeros(len(xs))
            e[k] = 1.0
            w = float(_scipy.interpolate.interp1d(xs, e, kind=self.kind, bounds_error=False, fill_value=0.0)(q))
            if w != 0.0:
                acc = acc + self.y[k] * w
        return acc

    def _one(self, q):
        from .core import ite, as_num, SNum
        if self.kind in ('quadratic', 'cubic'):
            return self._spline_one(q)
        x, y = self.x, self.y
        sym_geo = isinstance(q, SNum) or any(isinstance(v, SNum) for v in x)
        fill = self.fill
        if not sym_geo:
            qf = core.F(q)
            xs = [core.F(v) for v in x]
            if qf < xs[0] or qf > xs[-1]:
                return fill
            for k in range(len(xs) - 1):
                if xs[k] <= qf <= xs[k + 1]:
                    if qf == xs[k]:
                        return y[k]
                    if qf == xs[k + 1]:
                        return y[k + 1]
                    t = (qf - xs[k]) / (xs[k + 1] - xs[k])
                    return y[k] * SNum(core.Poly.const(1 - t)) + y[k + 1] * SNum(core.Poly.const(t))
            if len(xs) == 1 and qf == xs[0]:
                return y[0]
            return fill
        # symbolic geometry: chain of if-then-else over the intervals
        res = fill
        for k in range(len(x) - 2, -1, -1):
            t = (q - x[k]) / (x[k + 1] - x[k])
            seg = y[k] * (1 - t) + y[k + 1] * t
            res = ite((q >= x[k]) & (q <= x[k + 1]), seg, res)
        return res

    def __call__(self, xq):
        if self.real is not None and not is_sym(xq):
            return self.real(xq)
        if isinstance(xq, (rnp.ndarray, list, tuple)):
            Q = to_sarr(xq) if is_sym(xq) else rnp.asarray(xq, dtype=float)
            out = rnp.empty(Q.shape, dtype=object)
            for idx in rnp.ndindex(*Q.shape):
                out[idx] = self._one(Q[idx])
            r = out.view(arrays.SArr)
            r.ldtype = 'float'
            return r
        return self._one(xq)


def simpson(y=None, x=None, dx=1.0, axis=-1, **kw):
    """scipy.integrate.simpson is linear in y: with a concrete abscissa grid its weights are obtained from the real scipy
    on the unit vectors (realisation at the C boundary), so every spacing and the even-interval correction are scipy's own."""
    if not is_sym(y) and not is_sym(x):
        return _scipy.integrate.simpson(y, x=x, dx=dx, axis=axis, **kw)
    if is_sym(x):
        xc = try_concrete(to_sarr(x))
        if xc is None:
            raise SymxUnsupported('simpson with symbolic abscissae')
    else:
        xc = None if x is None else rnp.asarray(x, dtype=float)
    Y = to_sarr(y).ravel()
    n = len(Y)
    acc = 0
    for k in range(n):
        e = rnp.zeros(n)
        e[k] = 1.0
        w = float(_scipy.integrate.simpson(e, x=xc, dx=dx))
        if w != 0:
            acc = acc + Y[k] * w
    return acc


class _Mod(types.ModuleType):
    def __init__(self, name, real, over=None):
        super().__init__(name)
        self._real = real
        for k, v in (over or {}).items():
            setattr(self, k, v)

    def __getattr__(self, n):
        real = getattr(self._real, n)
        if callable(real) and not isinstance(real, type):
            def g(*a, **k):
                if any(is_sym(x) for x in a) or any(is_sym(x) for x in k.values()):
                    a2 = [try_concrete(to_sarr(x)) if is_sym(x) else x for x in a]
                    k2 = {kk: (try_concrete(to_sarr(x)) if is_sym(x) else x) for kk, x in k.items()}
                    if any(x is None for x in a2) or any(x is None for x in k2.values()):
                        raise SymxUnsupported(f'{self.__name__}.{n} on symbolic data is not modelled')
                    return real(*a2, **k2)
                return real(*a, **k)
            return g
        return real


sp_interpolate = _Mod('scipy.interpolate', _scipy.interpolate, {'interp1d': interp1d})
sp_integrate = _Mod('scipy.integrate', _scipy.integrate, {'simpson': simpson})
sp_ndimage = _Mod('scipy.ndimage', _scipy.ndimage)
sp_optimize = _Mod('scipy.optimize', _scipy.optimize)
sp_signal = _Mod('scipy.signal', _scipy.signal)
sp = _Mod('scipy', _scipy, {'interpolate': sp_interpolate, 'integrate': sp_integrate, 'ndimage': sp_ndimage, 'optimize': sp_optimize, 'signal': sp_signal})


def shims():
    return {'scipy': sp, 'scipy.interpolate': sp_interpolate, 'scipy.integrate': sp_integrate, 'scipy.ndimage': sp_ndimage,
            'scipy.optimize': sp_optimize, 'scipy.signal': sp_signal}


# ----------------------------------------------------------------------------- numpy.random by contract
def _seed_key(seed):
    if isinstance(seed, core.SNum):
        return ('sym', seed.p.key())
    return ('c', repr(seed))


def draw(kind, seed, call, idx, sort='R', info=None, defs=None):
    """The idx-th element of the call-th draw of `kind` from default_rng(seed): an uninterpreted value (one z3 variable
    per (generator seed, call index, element index)); equal seeds give the same variable."""
    v = core.mkvar(('draw', kind, _seed_key(seed), call, tuple(idx)), None, sort, 'draw', info or {})
    if defs and not v.defs:
        v.defs = defs(v.z)
    c = core.CUR[0]
    if c is not None:
        c.ensure([v.id])
    return core.SNum(core.Poly.var(v.id), sort == 'I')


_UNSEEDED = [0]


class Generator:
    def __init__(self, seed):
        self.seed = seed
        self.calls = 0
        c = core.CUR[0]
        if seed is None and c is not None:
            c.event('rng', 'default_rng() without a seed (OS entropy)')
            # fresh entropy: the draws of two unseeded generators are unrelated
            _UNSEEDED[0] += 1
            self.seed = ('unseeded', _UNSEEDED[0])

    def _shape(self, size, *args):
        if size is not None:
            if isinstance(size, (int, rnp.integer)):
                return (int(size),)
            return tuple(int(s) for s in size)
        shp = ()
        for a in args:
            s = getattr(a, 'shape', ())
            if isinstance(a, (list, tuple)):
                s = rnp.shape(a)
            shp = rnp.broadcast_shapes(shp, s)
        return shp

    def _arr(self, kind, shape, sort='R', info=None, defs=None, param=None):
        call = self.calls
        self.calls += 1
        out = rnp.empty(shape, dtype=object)
        for idx in rnp.ndindex(*shape):
            out[idx] = draw(kind, self.seed, call, idx, sort, info, defs)
            if call == 0:
                self._set_ev(out[idx], kind, shape, idx, param)
        if shape == ():
            return out[()]
        r = out.view(arrays.SArr)
        r.ldtype = 'int' if sort == 'I' else 'float'
        return r

    def _set_ev(self, snum, kind, shape, idx, param):
        """numeric value of a first-call draw for translator validation: the real numpy generator with the same seed"""
        (m, c), = snum.p.t.items()
        var = core.VARS[m[0][0]]
        seed = self.seed

        def ev(env, kind=kind, shape=shape, idx=idx, param=param, seed=seed):
            sv = int(round(core.evalf(seed, env))) if isinstance(seed, core.SNum) else seed
            g = rnp.random.default_rng(sv)
            if kind == 'normal':
                return float(g.standard_normal(shape)[idx] if shape else g.standard_normal())
            if kind == 'poisson':
                lam = rnp.array([float(core.evalf(v, env)) for v in (param.flat if hasattr(param, 'flat') else [param])]).reshape(shape)
                r = g.poisson(lam)
                return int(r[idx] if shape else r)
            if kind == 'uniform':
                return float(g.uniform(size=shape)[idx] if shape else g.uniform())
            raise KeyError(kind)
        if kind in ('normal', 'poisson', 'uniform') and not isinstance(seed, tuple):
            var.ev = ev

    def standard_normal(self, size=None):
        return self._arr('normal', self._shape(size))

    def normal(self, loc=0.0, scale=1.0, size=None):
        n0 = self._arr('normal', self._shape(size, loc, scale))
        return loc + scale * n0

    def poisson(self, lam=1.0, size=None):
        L = to_sarr(lam) if is_sym(lam) else rnp.asarray(lam)
        neg = False
        for v in (L.flat if hasattr(L, 'flat') else [L]):
            neg = arrays.e_or(neg, arrays._cmp('lt')(v, 0))
        if neg is True or (neg is not False and bool(neg)):
            raise ValueError('lam < 0 or lam is NaN')
        big = False
        for v in (L.flat if hasattr(L, 'flat') else [L]):
            big = arrays.e_or(big, arrays._cmp('gt')(v, 9.223372006484771e+18))
        if big is True or (big is not False and bool(big)):
            raise ValueError('lam value too large')
        return self._arr('poisson', self._shape(size, lam), 'I', {'nonneg': True}, lambda z: [z >= 0], param=L)

    def lognormal(self, mean=0.0, sigma=1.0, size=None):
        return self._arr('lognormal', self._shape(size, mean, sigma), 'R', {'pos': True}, lambda z: [z > 0])

    def uniform(self, low=0.0, high=1.0, size=None):
        u = self._arr('uniform', self._shape(size, low, high), 'R', {'nonneg': True}, lambda z: [z >= 0, z < 1])
        return low + (high - low) * u


class _Random(types.ModuleType):
    """module-level numpy.random.*: every use of the global generator is logged as an event"""

    def default_rng(self, seed=None):
        return Generator(seed)

    def __getattr__(self, n):
        if n.startswith('__'):
            raise AttributeError(n)
        g = Generator(('global',))

        def f(*a, **k):
            c = core.CUR[0]
            if c is not None:
                c.event('rng', f'global numpy.random.{n}')
            if n == 'rand':
                return g.uniform(0.0, 1.0, size=a if a else None)
            if n == 'seed':
                return None
            if hasattr(g, n):
                return getattr(g, n)(*a, **k)
            raise SymxUnsupported(f'numpy.random.{n}')
        return f


shim.random = _Random('numpy.random')


# ----------------------------------------------------------------------------- scipy.ndimage.map_coordinates: linear in the data
def map_coordinates(input, coordinates, output=None, order=3, mode='constant', cval=0.0, prefilter=True):
    """Spline interpolation is linear in the data for fixed coordinates: with concrete coordinates the result is
    sum_k data_k * map_coordinates(e_k, coordinates) with the weights taken from the real scipy on the unit arrays
    (realisation at the C boundary); concrete data go straight to the real function."""
    if not is_sym(input) and not is_sym(coordinates):
        return _scipy.ndimage.map_coordinates(input, coordinates, output=output, order=order, mode=mode, cval=cval, prefilter=prefilter)
    coords = [concrete(to_sarr(c)) if is_sym(c) else rnp.asarray(c, dtype=float) for c in coordinates]
    coords = rnp.asarray(coords, dtype=float)
    data = to_sarr(input)
    c = try_concrete(data)
    if c is not None:
        return _scipy.ndimage.map_coordinates(c.astype(float), coords, order=order, mode=mode, cval=cval, prefilter=prefilter)
    out_shape = coords.shape[1:]
    acc = rnp.empty(out_shape, dtype=object)
    acc[...] = 0
    for idx in rnp.ndindex(*data.shape):
        v = data[idx]
        if arrays._is_zero(v):
            continue
        e = rnp.zeros(data.shape)
        e[idx] = 1.0
        w = _scipy.ndimage.map_coordinates(e, coords, order=order, mode=mode, cval=0.0, prefilter=prefilter)
        for o in rnp.ndindex(*out_shape):
            if w[o] != 0.0:
                acc[o] = acc[o] + v * float(w[o])
    r = acc.view(arrays.SArr)
    r.ldtype = 'float'
    return r


sp_ndimage.map_coordinates = map_coordinates

"""Dense symbolic arrays: real numpy ndarrays of dtype=object (subclass SArr) holding symx scalars,
plus the numpy shim module handed to lentil's source instead of `numpy`."""
import builtins, math, types, itertools
from fractions import Fraction
import numpy as rnp
import z3
from . import core
from .core import (SNum, SCx, SBool, Poly, P0, P1, SymxUnsupported, as_num, ite, sbool, is_pynum, PYNUM, PYCX,
                   sx_sqrt, sx_floor, sx_ceil, sx_fix, sx_round, sx_int, sx_min, sx_max, ctx)

SYM = (SNum, SCx, SBool)
_nd_dtype = rnp.ndarray.dtype.__get__


def is_obj(a):
    return isinstance(a, rnp.ndarray) and _nd_dtype(a) == object


def is_sym(x):
    if isinstance(x, SYM):
        return True
    if isinstance(x, rnp.ndarray):
        return _nd_dtype(x) == object
    if isinstance(x, (list, tuple)):
        return any(is_sym(e) for e in x)
    return False


def has_sym_elems(a):
    """True if an object array holds at least one non-constant element."""
    for v in a.flat:
        if isinstance(v, SNum):
            if v.const() is None:
                return True
        elif isinstance(v, (SCx, SBool)):
            return True
    return False


def pyval(v):
    """constant element -> python number (or None if symbolic)."""
    if isinstance(v, SNum):
        c = v.const()
        if c is None:
            if _closed_poly(v.p):
                return float(v.p.evalf(core.Env({})))
            return None
        return int(c) if v.is_int and c.denominator == 1 else float(c)
    if isinstance(v, SCx):
        if not v.t:
            return 0j
        if all(_closed_poly(k) and _closed_poly(a) and _closed_poly(b) for k, (a, b) in v.t.items()):
            return complex(core.evalf(v, core.Env({})))
        if set(v.t) == {P0} and v.t[P0][0].is_const() and v.t[P0][1].is_const():
            return complex(float(v.t[P0][0].cval()), float(v.t[P0][1].cval()))
        return None
    if isinstance(v, SBool):
        f = z3.simplify(v.f)
        if z3.is_true(f):
            return True
        if z3.is_false(f):
            return False
        return None
    return v


def _closed_poly(p):
    """no free variables: only algebraic constants (sqrt of a number, pi)"""
    for m in p.t:
        for v, e in m:
            var = core.VARS[v]
            if var.kind not in ('sqrt', 'pi') or var.deps:
                return False
    return True


def concrete(a, dtype=None):
    """Object array with constant elements -> real numpy array (C boundary); raises if symbolic."""
    if not isinstance(a, rnp.ndarray):
        if isinstance(a, SYM):
            v = pyval(a)
            if v is None:
                raise SymxUnsupported('symbolic value reached a C boundary')
            return v
        if isinstance(a, (list, tuple)):
            return type(a)(concrete(e) for e in a)
        return a
    if _nd_dtype(a) != object:
        return rnp.asarray(a)
    vals = []
    for v in a.flat:
        p = pyval(v)
        if p is None:
            raise SymxUnsupported('symbolic array reached a C boundary')
        vals.append(p)
    out = rnp.array(vals).reshape(a.shape) if vals else rnp.zeros(a.shape)
    if dtype is not None:
        out = out.astype(dtype)
    return out


def try_concrete(a):
    try:
        return concrete(a)
    except SymxUnsupported:
        return None


def box(x):
    a = rnp.empty((), dtype=object)
    a[()] = x
    return a


def to_sarr(x, ldtype=None):
    """anything array-like -> SArr (object)."""
    if isinstance(x, SArr):
        return x
    if isinstance(x, rnp.ndarray):
        if _nd_dtype(x) == object:
            r = x.view(SArr)
        else:
            r = x.astype(object).view(SArr)
            k = _nd_dtype(x).kind
            r.ldtype = {'f': 'float', 'c': 'complex', 'i': 'int', 'u': 'int', 'b': 'bool'}.get(k)
        if ldtype:
            r.ldtype = ldtype
        return r
    if isinstance(x, SYM) or isinstance(x, PYNUM) or isinstance(x, PYCX):
        r = box(x).view(SArr)
        r.ldtype = ldtype
        return r
    if isinstance(x, (list, tuple)):
        subs = [to_sarr(e) for e in x]
        if not subs:
            r = rnp.empty((0,), dtype=object).view(SArr)
            return r
        shp = subs[0].shape
        for s in subs:
            if s.shape != shp:
                raise ValueError('setting an array element with a sequence. The requested array has an inhomogeneous shape')
        a = rnp.empty((len(subs),) + shp, dtype=object)
        for i, s in enumerate(subs):
            if shp == ():
                a[i] = s[()]
            else:
                a[i] = s.view(rnp.ndarray)
        r = a.view(SArr)
        r.ldtype = ldtype
        return r
    if isinstance(x, range):
        return to_sarr(list(x), ldtype)
    raise SymxUnsupported(f'to_sarr({type(x)})')


def wrap(r, like=None):
    if isinstance(r, rnp.ndarray) and _nd_dtype(r) == object and not isinstance(r, SArr):
        r = r.view(SArr)
    if isinstance(r, (list, tuple)):
        return type(r)(wrap(e) for e in r)
    return r


def emap(f, *xs, ldtype=None):
    arrs = []
    for x in xs:
        if isinstance(x, rnp.ndarray):
            arrs.append(x.view(rnp.ndarray))
        elif isinstance(x, (list, tuple)):
            arrs.append(to_sarr(x).view(rnp.ndarray))
        else:
            arrs.append(box(x))
    b = rnp.broadcast(*arrs)
    out = rnp.empty(b.shape, dtype=object)
    if b.shape == ():
        out[()] = f(*[a[()] for a in arrs])
    else:
        out.flat = [f(*v) for v in b]
    r = out.view(SArr)
    r.ldtype = ldtype
    return r


# ----------------------------------------------------------------------------- elementwise kernels
def _cx(v):
    return isinstance(v, (SCx,) + PYCX)


def e_abs(v):
    if isinstance(v, (SNum, SCx)):
        return abs(v)
    if isinstance(v, SBool):
        return v.num()
    return abs(v)


def e_sqrt(v):
    if isinstance(v, SNum):
        return sx_sqrt(v)
    if isinstance(v, SCx):
        r = v.as_real()
        if r is None:
            raise SymxUnsupported('sqrt of complex')
        return sx_sqrt(r)
    if isinstance(v, PYCX):
        return rnp.sqrt(v)
    return exact_sqrt(v)


def exact_sqrt(v):
    """sqrt of a concrete scalar met in symbolic mode: exact rational or a named algebraic atom."""
    if isinstance(v, (int, rnp.integer)) or (isinstance(v, (float, rnp.floating)) and float(v) == int(v) and abs(v) < 10 ** 9):
        n = int(v)
        if n >= 0:
            r = math.isqrt(n)
            if r * r == n:
                return rnp.float64(r)
            if core.CUR[0] is not None and EXACT[0]:
                return sx_sqrt(SNum(Poly.const(n), False))
    return rnp.sqrt(v)


EXACT = [True]


def e_exp(v):
    if isinstance(v, SCx):
        return v.exp()
    if isinstance(v, SNum):
        return core.real_exp(v)
    if isinstance(v, PYCX) and core.CUR[0] is not None:
        return SCx.of(v).exp() if v.real == 0 and False else rnp.exp(v)
    return rnp.exp(v)


def e_conj(v):
    if isinstance(v, (SNum, SCx)):
        return v.conjugate()
    if isinstance(v, SBool):
        return v
    return rnp.conj(v)


def e_real(v):
    if isinstance(v, (SNum, SCx)):
        return v.real
    return v.real if hasattr(v, 'real') else v


def e_imag(v):
    if isinstance(v, (SNum, SCx)):
        return v.imag
    return v.imag if hasattr(v, 'imag') else 0


def _f64(r):
    """numpy's floor/ceil/fix/round return floats: a pinned/constant result is handed on as numpy.float64"""
    return rnp.float64(r) if isinstance(r, builtins.int) else r


def e_floor(v):
    return _f64(sx_floor(v)) if isinstance(v, SNum) else (rnp.floor(v) if not isinstance(v, SBool) else v.num())


def e_ceil(v):
    return _f64(sx_ceil(v)) if isinstance(v, SNum) else rnp.ceil(v)


def e_fix(v):
    return _f64(sx_fix(v)) if isinstance(v, SNum) else rnp.fix(v)


def e_round(v):
    return _f64(sx_round(v)) if isinstance(v, SNum) else rnp.round(v)


def e_sign(v):
    if isinstance(v, SNum):
        return ite(v > 0, 1, ite(v < 0, -1, 0))
    return rnp.sign(v)


def e_not(v):
    if isinstance(v, SBool):
        return ~v
    if isinstance(v, SNum):
        return v == 0
    return not v


def _b(v):
    """truth value of an element as SBool / bool (no forking)."""
    if isinstance(v, SBool):
        return v
    if isinstance(v, (SNum, SCx)):
        return v != 0
    return bool(v)


def e_and(a, b):
    a, b = _b(a), _b(b)
    if isinstance(a, bool):
        return b if a else False
    if isinstance(b, bool):
        return a if b else False
    return a & b


def e_or(a, b):
    a, b = _b(a), _b(b)
    if isinstance(a, bool):
        return True if a else b
    if isinstance(b, bool):
        return True if b else a
    return a | b


def e_pow(a, b):
    if isinstance(b, SNum):
        c = b.const()
        if c is None:
            raise SymxUnsupported('symbolic exponent')
        b = int(c) if c.denominator == 1 else c
    if isinstance(b, (float, rnp.floating)) and float(b) == int(b):
        b = int(b)
    if isinstance(a, (SNum, SCx)):
        if isinstance(b, (float, rnp.floating)):
            b = Fraction(repr(float(b)))
        return a ** b
    if isinstance(a, SBool):
        return a.num() ** b
    return a ** b


def e_div(a, b):
    if isinstance(b, SBool):
        b = b.num()
    if isinstance(a, SBool):
        a = a.num()
    if not isinstance(a, SYM) and not isinstance(b, SYM):
        if b == 0:
            return rnp.true_divide(a, b)
        return a / b
    return a / b


def e_fdiv(a, b):
    if not isinstance(a, SYM) and not isinstance(b, SYM):
        return rnp.floor_divide(a, b)
    return a // b


def e_mul(a, b):
    if isinstance(a, (bool, rnp.bool_)) and isinstance(b, SYM):
        return b if a else (0 if not isinstance(b, SBool) else False)
    if isinstance(b, (bool, rnp.bool_)) and isinstance(a, SYM):
        return a if b else (0 if not isinstance(a, SBool) else False)
    return a * b


def e_max(a, b):
    return sx_max(a, b)


def e_min(a, b):
    return sx_min(a, b)


def e_cos(v):
    return trig(v, 'cos')


def e_sin(v):
    return trig(v, 'sin')


def trig(v, which):
    if isinstance(v, SNum):
        # argument must be pi * turns*2: use the unit phasor and take re / im
        t = {}
        for m, c in v.p.t.items():
            d = dict(m)
            if d.get(core.PI.id) != 1:
                return trig_atom(v, which)
            del d[core.PI.id]
            t[tuple(sorted(d.items()))] = c / 2
        ph = core.phase_key(Poly(t))
        if ph.is_const():
            c = ph.cval()
            ex = {Fraction(0): (1, 0), Fraction(1, 4): (0, 1), Fraction(1, 2): (-1, 0), Fraction(3, 4): (0, -1)}
            if c in ex:
                return float(ex[c][0 if which == 'cos' else 1])
            if 24 % c.denominator == 0 and c.denominator in (8, 12, 6, 3):
                return _exact_trig(c, which)
        z = SCx({ph: (P1, P0)})
        return z.real if which == 'cos' else z.imag
    return getattr(rnp, which)(v)


def _exact_trig(c, which):
    """cos / sin of 2 pi c for c = k/8 or k/12: exact algebraic numbers over sqrt(2), sqrt(3)"""
    k24 = int(c * 24) % 24
    half = Fraction(1, 2)
    r2 = SNum(core._sqrt_prime(2), False)
    r3 = SNum(core._sqrt_prime(3), False)
    base = {0: (1, 0), 2: (r3 * half, half), 3: (r2 * half, r2 * half), 4: (half, r3 * half), 6: (0, 1)}   # angle = k24 * 15 deg, first quadrant
    q, r = divmod(k24, 6)
    if r not in base and (6 - r) not in base:
        raise SymxUnsupported(f'exact trig of {c} turns')
    if r in base:
        co, si = base[r]
    else:
        si, co = base[6 - r]
    for _ in range(q):              # rotate by 90 degrees
        co, si = -si, co
    v = co if which == 'cos' else si
    return v


def trig_atom(v, which):
    """cos/sin of a symbolic real argument in radians that is not a pi-multiple: (cos, sin) atom pair."""
    p = v.p
    lead = min(p.t.items(), key=lambda kv: kv[0])[1]
    sgn = 1
    if lead < 0:
        p = -p
        sgn = -1
    c = core.mkvar(('cosr', p.key()), None, 'R', 'cosr')
    s = core.mkvar(('sinr', p.key()), None, 'R', 'sinr')
    if not c.defs:
        c.deps = s.deps = tuple(p.vars())
        c.defs = [c.z * c.z + s.z * s.z == 1]
        c.ev = lambda env, p=p: math.cos(p.evalf(env))
        s.ev = lambda env, p=p: math.sin(p.evalf(env))
    if core.CUR[0] is not None:
        core.CUR[0].ensure([c.id, s.id])
    if which == 'cos':
        return SNum(Poly.var(c.id), False)
    r = SNum(Poly.var(s.id), False)
    return r if sgn > 0 else -r


def e_sinc(v):
    if isinstance(v, SNum):
        c = v.const()
        if c is not None:
            if c == 0:
                return 1.0
            if c.denominator == 1:
                return 0.0
            return float(rnp.sinc(float(c)))
        p = v.p
        lead = min(p.t.items(), key=lambda kv: kv[0])[1]
        if lead < 0:
            p = -p          # sinc is even
        a = core.mkvar(('sinc', p.key()), None, 'R', 'sinc')
        if not a.defs:
            a.deps = tuple(p.vars())
            a.defs = [a.z <= 1, a.z >= -1]
            a.ev = lambda env, p=p: float(rnp.sinc(p.evalf(env)))
        return SNum(Poly.var(a.id), False)
    return rnp.sinc(v)


def _cmp(op):
    def f(a, b):
        if isinstance(a, SBool) and not isinstance(b, SYM):
            a = a.num()
        r = getattr(a, f'__{op}__')(b)
        if r is NotImplemented:
            rop = {'lt': 'gt', 'gt': 'lt', 'le': 'ge', 'ge': 'le', 'eq': 'eq', 'ne': 'ne'}[op]
            r = getattr(b, f'__{rop}__')(a)
        if isinstance(r, rnp.bool_):
            r = bool(r)
        return r
    return f


UF = {
    'add': lambda a, b: a + b, 'subtract': lambda a, b: a - b, 'multiply': e_mul,
    'true_divide': e_div, 'divide': e_div, 'floor_divide': e_fdiv, 'remainder': lambda a, b: a % b,
    'negative': lambda a: -a, 'positive': lambda a: a, 'power': e_pow, 'absolute': e_abs, 'fabs': e_abs,
    'sqrt': e_sqrt, 'exp': e_exp, 'conjugate': e_conj, 'square': lambda a: e_pow(a, 2),
    'reciprocal': lambda a: e_div(1, a),
    'floor': e_floor, 'ceil': e_ceil, 'trunc': e_fix, 'rint': e_round, 'sign': e_sign,
    'greater': _cmp('gt'), 'less': _cmp('lt'), 'greater_equal': _cmp('ge'), 'less_equal': _cmp('le'),
    'equal': _cmp('eq'), 'not_equal': _cmp('ne'),
    'logical_and': e_and, 'logical_or': e_or, 'logical_not': e_not, 'invert': e_not,
    'bitwise_and': e_and, 'bitwise_or': e_or,
    'maximum': e_max, 'minimum': e_min, 'cos': e_cos, 'sin': e_sin,
    'isfinite': lambda a: True, 'isnan': lambda a: False, 'isinf': lambda a: False if isinstance(a, SYM) else rnp.isinf(a),
    'deg2rad': lambda a: a * core.SPI / 180, 'radians': lambda a: a * core.SPI / 180,
}
RED_INIT = {'add': 0, 'multiply': 1, 'logical_and': True, 'logical_or': False}


def reduce_arr(f, a, axis=None, init=None, keepdims=False):
    a = a.view(rnp.ndarray) if isinstance(a, rnp.ndarray) else to_sarr(a).view(rnp.ndarray)
    if axis is None:
        it = iter(a.flat)
        acc = init
        for v in it:
            acc = v if acc is None else f(acc, v)
        if acc is None:
            raise ValueError('zero-size array to reduction operation which has no identity')
        if keepdims:
            return to_sarr(acc).reshape((1,) * a.ndim)
        return acc
    if isinstance(axis, tuple):
        r = a
        for ax in sorted([x % a.ndim for x in axis], reverse=True):
            r = reduce_arr(f, r, ax, init, keepdims)
        return r
    axis = axis % a.ndim
    moved = rnp.moveaxis(a, axis, 0)
    out = rnp.empty(moved.shape[1:], dtype=object)
    for idx in rnp.ndindex(out.shape):
        acc = init
        for k in range(moved.shape[0]):
            v = moved[(k,) + idx]
            acc = v if acc is None else f(acc, v)
        if acc is None:
            raise ValueError('zero-size array to reduction operation which has no identity')
        out[idx] = acc
    if keepdims:
        out = rnp.expand_dims(out, axis)
    if out.shape == ():
        return out[()]
    return out.view(SArr)


class SArr(rnp.ndarray):
    ldtype = None

    def __array_finalize__(self, obj):
        if obj is not None:
            self.ldtype = getattr(obj, 'ldtype', None)

    def __array_ufunc__(self, ufunc, method, *inputs, out=None, **kw):
        name = ufunc.__name__
        f = UF.get(name)
        if f is None:
            raise SymxUnsupported(f'ufunc {name} on symbolic array')
        kw.pop('casting', None)
        kw.pop('dtype', None)
        if method == '__call__':
            where = kw.pop('where', True)
            if kw or where is not True:
                raise SymxUnsupported(f'ufunc {name} kwargs {kw}')
            res = emap(f, *inputs)
        elif method == 'reduce':
            axis = kw.pop('axis', 0)
            keep = kw.pop('keepdims', False)
            kw.pop('initial', None)
            kw.pop('where', None)
            res = reduce_arr(f, inputs[0], axis, RED_INIT.get(name), keep)
        elif method == 'outer':
            a, b = inputs
            a = to_sarr(a).ravel()
            b = to_sarr(b).ravel()
            res = emap(f, a.reshape(-1, 1), b.reshape(1, -1))
        else:
            raise SymxUnsupported(f'ufunc method {method}')
        if out is not None:
            o = out[0]
            o[...] = res
            return o
        return res

    def __getitem__(self, key):
        key = _fix_key(key, self.shape)
        r = rnp.ndarray.__getitem__(self, key)
        return r

    def __setitem__(self, key, val):
        if isinstance(key, rnp.ndarray) and _nd_dtype(key) == object and key.shape == self.shape:
            # boolean mask of SBool: elementwise if-then-else
            v = to_sarr(val)
            if v.shape not in ((), self.shape):
                raise SymxUnsupported('masked assignment of a non-scalar under a symbolic mask')
            flat_self = self.view(rnp.ndarray).reshape(-1) if self.flags['C_CONTIGUOUS'] else None
            for idx in rnp.ndindex(self.shape):
                c = _b(key[idx])
                nv = v[()] if v.shape == () else v[idx]
                old = rnp.ndarray.__getitem__(self, idx)
                rnp.ndarray.__setitem__(self, idx, nv if c is True else (old if c is False else ite(c, nv, old)))
            return
        key = _fix_key(key, self.shape)
        if isinstance(val, rnp.ndarray) and _nd_dtype(val) != object:
            val = val.astype(object)
        elif isinstance(val, rnp.ndarray) and val.shape == () :
            val = val[()]           # store the element, never a 0-d array object
        rnp.ndarray.__setitem__(self, key, val)

    # numpy-like attributes computed on the logical content
    @property
    def dtype(self):
        ld = self.ldtype
        if ld == 'complex':
            return rnp.dtype(complex)
        if ld == 'float':
            return rnp.dtype(float)
        if ld == 'int':
            return rnp.dtype(int)
        if ld == 'bool':
            return rnp.dtype(bool)
        return _nd_dtype(self)

    @property
    def real(self):
        r = emap(e_real, self, ldtype='float')
        return r

    @real.setter
    def real(self, v):
        self[...] = emap(lambda old, new: new + 1j * e_imag(old) if not _is_zero(e_imag(old)) else new, self, v)

    @property
    def imag(self):
        return emap(e_imag, self, ldtype='float')

    @imag.setter
    def imag(self, v):
        self[...] = emap(lambda old, new: e_real(old) + SCx.of(new) * 1j, self, v)

    def conj(self):
        return emap(e_conj, self, ldtype=self.ldtype)

    conjugate = conj

    def astype(self, t, **kw):
        return astype(self, t)

    def dot(self, b, out=None):
        return dot(self, b, out)

    def sum(self, axis=None, dtype=None, out=None, keepdims=False, **kw):
        return reduce_arr(UF['add'], self, axis, 0, keepdims)

    def prod(self, axis=None, **kw):
        return reduce_arr(UF['multiply'], self, axis, 1)

    def any(self, axis=None, **kw):
        return _truth(reduce_arr(e_or, self, axis, False))

    def all(self, axis=None, **kw):
        return _truth(reduce_arr(e_and, self, axis, True))

    def max(self, axis=None, **kw):
        return reduce_arr(e_max, self, axis)

    def min(self, axis=None, **kw):
        return reduce_arr(e_min, self, axis)

    def mean(self, axis=None, **kw):
        n = self.size if axis is None else self.shape[axis]
        return self.sum(axis) / n

    def copy(self, order='C'):
        r = rnp.ndarray.copy(self.view(rnp.ndarray), order).view(SArr)
        r.ldtype = self.ldtype
        return r

    def __deepcopy__(self, memo):
        return self.copy()

    def __bool__(self):
        if self.size != 1:
            raise ValueError('The truth value of an array with more than one element is ambiguous. Use a.any() or a.all()')
        return bool(_b(self.view(rnp.ndarray).reshape(-1)[0]))

    def __index__(self):
        if self.size != 1:
            raise TypeError('only integer scalar arrays can be converted to a scalar index')
        return builtins.int(self.view(rnp.ndarray).reshape(-1)[0].__index__())

    def __int__(self):
        return self.__index__()

    def __float__(self):
        return float(self.view(rnp.ndarray).reshape(-1)[0])

    def _inplace(self, name, o):
        res = emap(UF[name], self, o)
        rnp.ndarray.__setitem__(self, Ellipsis, res.view(rnp.ndarray))
        return self

    def __iadd__(self, o): return self._inplace('add', o)
    def __isub__(self, o): return self._inplace('subtract', o)
    def __imul__(self, o): return self._inplace('multiply', o)
    def __itruediv__(self, o): return self._inplace('true_divide', o)

    def __matmul__(self, b):
        return dot(self, b)

    def __rmatmul__(self, a):
        return dot(a, self)

    def tolist(self):
        return rnp.ndarray.tolist(self.view(rnp.ndarray))

    def __repr__(self):
        return 'SArr(' + repr(self.view(rnp.ndarray)) + ')'

    def nonzero(self):
        return nonzero(self)

    def item(self, *a):
        return self.view(rnp.ndarray).item(*a)

    def fill(self, v):
        self[...] = v


def _is_zero(v):
    if isinstance(v, SNum):
        return v.p.is_zero()
    if isinstance(v, SCx):
        return not v.t
    return v == 0


def _truth(r):
    """reduction result of logical ops: keep python bools, leave SBool (forks when tested)."""
    if isinstance(r, rnp.ndarray):
        return r
    return r


def _has_sym_slice(k):
    return isinstance(k, slice) and any(isinstance(x, SNum) for x in (k.start, k.stop, k.step))


def _norm_bound(v, n, default):
    """python's slice normalisation of one bound for an axis of length n (step 1): wrap negatives, clip to [0, n]."""
    if v is None:
        return default
    if isinstance(v, SNum):
        w = ite(v < 0, v + n, v)
        w = sx_max(w, 0)
        w = sx_min(w, n)
        return core.concretize(w) if isinstance(w, SNum) else builtins.int(w)
    return v


def _fix_key(key, shape=None):
    """index keys: symbolic slice bounds are normalised against the axis length first (so that only the finitely many
    distinct outcomes are realised), symbolic ints are realised, SBool masks are realised by forking."""
    if shape is not None and (_has_sym_slice(key) or (isinstance(key, tuple) and any(_has_sym_slice(k) for k in key))):
        keys = key if isinstance(key, tuple) else (key,)
        if all(isinstance(k, (slice, int, SNum, rnp.integer)) for k in keys) and len(keys) <= len(shape):
            out = []
            for ax, k in enumerate(keys):
                if _has_sym_slice(k):
                    if k.step not in (None, 1):
                        raise SymxUnsupported('symbolic slice with a step')
                    n = shape[ax]
                    out.append(slice(_norm_bound(k.start, n, 0), _norm_bound(k.stop, n, n)))
                else:
                    out.append(_fix_key(k))
            return tuple(out) if isinstance(key, tuple) else out[0]
    if isinstance(key, SNum):
        return core.concretize(key)
    if isinstance(key, slice):
        return slice(_fix_idx(key.start), _fix_idx(key.stop), _fix_idx(key.step))
    if isinstance(key, tuple):
        return tuple(_fix_key(k) for k in key)
    if isinstance(key, rnp.ndarray) and _nd_dtype(key) == object:
        vals = [pyval(v) for v in key.flat]
        if any(v is None for v in vals):
            vals = []
            for v in key.flat:
                if isinstance(v, SBool):
                    vals.append(bool(v))
                elif isinstance(v, SNum):
                    vals.append(core.concretize(v))
                else:
                    vals.append(v)
        return rnp.array(vals).reshape(key.shape)
    if isinstance(key, list) and any(isinstance(k, SYM) for k in key):
        return [_fix_key(k) for k in key]
    return key


def _fix_idx(v):
    if isinstance(v, SNum):
        return core.concretize(v)
    if isinstance(v, rnp.ndarray) and _nd_dtype(v) == object and v.shape == ():
        return _fix_idx(v[()])
    return v


def scalar_with_array(s, arr, op, rev=False):
    """binary op between a symx scalar and an ndarray (scalar's __op__/__rop__ got an array)."""
    table = {'add': 'add', 'sub': 'subtract', 'mul': 'multiply', 'truediv': 'true_divide', 'floordiv': 'floor_divide',
             'mod': 'remainder', 'pow': 'power', 'lt': 'less', 'le': 'less_equal', 'gt': 'greater', 'ge': 'greater_equal',
             'eq': 'equal', 'ne': 'not_equal', 'and': 'logical_and', 'or': 'logical_or'}
    f = UF[table[op]]
    if rev:
        return emap(f, arr, s)
    return emap(f, s, arr)


def astype(a, t):
    a = to_sarr(a)
    if isinstance(t, type) and issubclass(t, rnp.generic):
        t = rnp.dtype(t)
    if t in (builtins.int, rnp.int64, rnp.int32, rnp.intp, rnp.int_, 'int') or (isinstance(t, rnp.dtype) and t.kind in 'iu'):
        r = emap(lambda v: sx_int(v) if isinstance(v, SYM) else builtins.int(v), a, ldtype='int')
        c = try_concrete(r)
        return c.astype(builtins.int) if c is not None else r
    if t in (builtins.bool, rnp.bool_) or (isinstance(t, rnp.dtype) and t.kind == 'b'):
        r = emap(_b, a, ldtype='bool')
        c = try_concrete(r)
        return c.astype(builtins.bool) if c is not None else r
    if t in (builtins.float, rnp.float64, rnp.float32) or (isinstance(t, rnp.dtype) and t.kind == 'f'):
        r = emap(lambda v: v.num() if isinstance(v, SBool) else v, a, ldtype='float')
        return r
    if t in (builtins.complex, rnp.complex128) or (isinstance(t, rnp.dtype) and t.kind == 'c'):
        r = a.copy()
        r.ldtype = 'complex'
        return r
    if t is object or t == rnp.dtype(object):
        return a.copy()
    raise SymxUnsupported(f'astype({t})')


def dot(a, b, out=None):
    if not is_sym(a) and not is_sym(b):
        return rnp.dot(a, b, out=out)
    A = to_sarr(a).view(rnp.ndarray)
    B = to_sarr(b).view(rnp.ndarray)
    if A.ndim == 0 or B.ndim == 0:
        res = emap(e_mul, A, B)
    elif A.ndim == 1 and B.ndim == 1:
        if A.shape[0] != B.shape[0]:
            raise ValueError(f'shapes {A.shape} and {B.shape} not aligned')
        acc = 0
        for x, y in zip(A, B):
            acc = acc + e_mul(x, y)
        res = acc
    else:
        A2 = A if A.ndim > 1 else A.reshape(1, -1)
        B2 = B if B.ndim > 1 else B.reshape(-1, 1)
        if A2.ndim != 2 or B2.ndim != 2:
            raise SymxUnsupported('dot of >2-D arrays')
        if A2.shape[1] != B2.shape[0]:
            raise ValueError(f'shapes {A.shape} and {B.shape} not aligned: {A2.shape[1]} (dim 1) != {B2.shape[0]} (dim 0)')
        o = rnp.empty((A2.shape[0], B2.shape[1]), dtype=object)
        for i in range(A2.shape[0]):
            for j in range(B2.shape[1]):
                acc = 0
                for k in range(A2.shape[1]):
                    x, y = A2[i, k], B2[k, j]
                    if _is_zero(x) or _is_zero(y):
                        continue
                    acc = acc + e_mul(x, y)
                o[i, j] = acc
        if A.ndim == 1:
            o = o.reshape(-1)
        elif B.ndim == 1:
            o = o.reshape(-1)
        res = o.view(SArr)
    if out is not None:
        if out.shape != getattr(res, 'shape', ()):
            raise ValueError('output array has wrong dimensions')
        out[...] = res
        return out
    return res


def nonzero(a):
    a = to_sarr(a)
    c = try_concrete(a)
    if c is None:
        vals = rnp.array([bool(_b(v)) for v in a.flat]).reshape(a.shape)     # forks
        return rnp.nonzero(vals)
    return rnp.nonzero(c)


# ----------------------------------------------------------------------------- the numpy shim module
class Shim(types.ModuleType):
    def __getattr__(self, n):
        real = getattr(rnp, n)
        if callable(real) and not isinstance(real, type):
            g = _guard(n, real)
            setattr(self, n, g)
            return g
        return real


STRUCT = {'broadcast_to', 'meshgrid', 'tile', 'concatenate', 'append', 'hstack', 'vstack', 'stack', 'repeat', 'flip',
          'rot90', 'delete', 'insert', 'copy', 'reshape', 'ravel', 'transpose', 'squeeze', 'expand_dims',
          'moveaxis', 'swapaxes', 'roll', 'atleast_1d', 'atleast_2d', 'broadcast_arrays', 'take', 'flipud', 'fliplr',
          'ndim', 'shape', 'size', 'diag', 'ediff1d_'}


def _guard(name, real):
    def g(*a, **k):
        if any(is_sym(x) for x in a) or any(is_sym(x) for x in k.values()):
            if name in STRUCT:
                a2 = [to_sarr(x).view(rnp.ndarray) if is_sym(x) and not isinstance(x, (list, tuple)) else
                      ([to_sarr(e).view(rnp.ndarray) if is_sym(e) else e for e in x] if isinstance(x, (list, tuple)) and is_sym(x) else x)
                      for x in a]
                return wrap(real(*a2, **k))
            raise SymxUnsupported(f'numpy.{name} on symbolic data is not modelled')
        return real(*a, **k)
    g.__name__ = name
    return g


np = Shim('numpy')
np.ndarray = rnp.ndarray
np.pi = core.SPI
np.newaxis = None
np.inf = rnp.inf
np.nan = rnp.nan
np.s_ = rnp.s_
np.mgrid = rnp.mgrid
np.float64 = rnp.float64
np.complex128 = rnp.complex128
np.int64 = rnp.int64
np.uint16 = rnp.uint16
np.float32 = rnp.float32
np.errstate = rnp.errstate
np.finfo = rnp.finfo
np.dtype = rnp.dtype
np.ndindex = rnp.ndindex


def _kind(dtype):
    if dtype is None:
        return 'float'
    if dtype in (builtins.float,):
        return 'float'
    if dtype in (builtins.complex,):
        return 'complex'
    if dtype in (builtins.int,):
        return 'int'
    if dtype in (builtins.bool,):
        return 'bool'
    if dtype is object:
        return None
    try:
        k = rnp.dtype(dtype).kind
    except TypeError:
        return None
    return {'f': 'float', 'c': 'complex', 'i': 'int', 'u': 'int', 'b': 'bool', 'O': None}.get(k, 'other')


SYMBOLIC_CREATORS = [True]


def _creator(fill):
    def f(shape, dtype=None, **kw):
        kd = _kind(dtype)
        if isinstance(shape, SNum):
            shape = core.concretize(shape)
        elif isinstance(shape, (tuple, list)) or is_obj(shape):
            shape = tuple(core.concretize(s) if isinstance(s, SNum) else builtins.int(s) for s in shape)
        elif isinstance(shape, rnp.ndarray):
            shape = tuple(builtins.int(s) for s in shape)
        if kd in ('float', 'complex', None) and SYMBOLIC_CREATORS[0] and core.CUR[0] is not None:
            a = rnp.empty(shape, dtype=object)
            a[...] = fill
            r = a.view(SArr)
            r.ldtype = kd
            return r
        return {0: rnp.zeros, 1: rnp.ones}[fill](shape, dtype=dtype)
    return f


np.zeros = _creator(0)
np.ones = _creator(1)
np.empty = _creator(0)


def result_type(*a):
    """numpy.result_type with symbolic operands: the logical kind of the symbolic ones (complex > float > int > bool;
    an untyped symbolic value counts as float) joined with the real result type of the concrete ones."""
    if not any(is_sym(x) for x in a):
        return rnp.result_type(*a)
    rank = {'bool': 0, 'int': 1, 'float': 2, None: 2, 'complex': 3, 'other': 2}
    top = 0
    for x in a:
        if is_sym(x):
            k = x.ldtype if isinstance(x, SArr) else (to_sarr(x).ldtype if not isinstance(x, SNum) else None)
        else:
            k = _kind(rnp.result_type(x))
        top = max(top, rank.get(k, 2))
    return [rnp.dtype(bool), rnp.dtype(rnp.int64), rnp.dtype(float), rnp.dtype(complex)][top]


np.result_type = result_type


def zeros_like(a, dtype=None):
    if is_sym(a):
        a = to_sarr(a)
        r = np.zeros(a.shape, dtype=object if a.ldtype is None else {'float': float, 'complex': complex, 'int': int, 'bool': bool}[a.ldtype])
        if not isinstance(r, SArr):
            return r
        r.ldtype = a.ldtype
        return r
    if core.CUR[0] is not None and rnp.asarray(a).dtype.kind in 'fc':
        return np.zeros(rnp.shape(a), dtype=rnp.asarray(a).dtype)
    return rnp.zeros_like(a, dtype=dtype)


np.zeros_like = zeros_like


def full(shape, fill_value, dtype=None, **kw):
    kd = _kind(dtype) if dtype is not None else None
    if is_sym(fill_value) or (kd in ('float', 'complex', None) and core.CUR[0] is not None and dtype is not None and not isinstance(dtype, rnp.dtype)):
        if isinstance(shape, (int, rnp.integer)):
            shape = (int(shape),)
        v = fill_value
        if kd == 'int':
            v = sx_int(v) if isinstance(v, SYM) else builtins.int(v)      # the cast to an integer dtype truncates
        elif kd == 'bool':
            v = _b(v)
        a = rnp.empty(tuple(shape), dtype=object)
        a[...] = v
        r = a.view(SArr)
        r.ldtype = kd if kd else 'float'
        return r
    return rnp.full(shape, fill_value, dtype=dtype, **kw)


np.full = full


def ones_like(a, dtype=None):
    r = zeros_like(a, dtype)
    if isinstance(r, SArr):
        r[...] = 1
        return r
    return rnp.ones_like(a, dtype=dtype)


np.ones_like = ones_like


def asarray(x, dtype=None, **kw):
    if is_sym(x):
        if isinstance(x, SArr) and dtype is None:
            return x
        r = to_sarr(x)
        if dtype is not None:
            kd = _kind(dtype)
            if kd == 'int':
                return astype(r, builtins.int)
            if kd == 'bool':
                return astype(r, builtins.bool)
            if r.ldtype != kd:
                r = r.view(SArr)
                r.ldtype = kd
        return r
    return rnp.asarray(x, dtype=dtype)


np.asarray = asarray
np.asanyarray = asarray


def array(x, dtype=None, copy=True, **kw):
    if is_sym(x):
        r = to_sarr(x)
        r = r.copy() if r is x or isinstance(x, rnp.ndarray) else r
        if dtype is not None:
            kd = _kind(dtype)
            if kd == 'int':
                return astype(r, builtins.int)
            r.ldtype = kd
        return r
    return rnp.array(x, dtype=dtype, **kw)


np.array = array


def copy(a, **kw):
    if is_sym(a):
        return to_sarr(a).copy()
    return rnp.copy(a)


np.copy = copy


def _un(name):
    f = UF[name]
    real = getattr(rnp, name)

    def g(x, *a, out=None, **k):
        if is_sym(x):
            if isinstance(x, SYM):
                r = f(x)
            else:
                r = emap(f, x)
        else:
            return real(x, *a, out=out, **k) if out is not None else real(x, *a, **k)
        if out is not None:
            out[...] = r
            return out
        return r
    g.__name__ = name
    return g


def _bin(name):
    f = UF[name]
    real = getattr(rnp, name)

    def g(x, y, out=None, **k):
        if is_sym(x) or is_sym(y) or (out is not None and is_obj(out)):
            if not isinstance(x, (rnp.ndarray, list, tuple)) and not isinstance(y, (rnp.ndarray, list, tuple)):
                r = f(x, y)
            else:
                r = emap(f, x, y)
        else:
            return real(x, y, out=out, **k) if out is not None else real(x, y, **k)
        if out is not None:
            out[...] = r
            return out
        return r
    g.__name__ = name
    return g


for _n in ('floor', 'ceil', 'conjugate', 'negative', 'square', 'sign', 'cos', 'sin', 'logical_not', 'invert',
           'deg2rad', 'radians', 'reciprocal', 'isinf', 'isnan'):
    setattr(np, _n, _un(_n))
np.conj = np.conjugate
np.fix = lambda x, **k: (e_fix(x) if isinstance(x, SYM) else emap(e_fix, x)) if is_sym(x) else rnp.fix(x)
def _round(x, decimals=0, **k):
    if is_sym(x):
        if decimals:
            sc = 10 ** decimals
            f = lambda v: (e_round(v * sc) / sc) if isinstance(v, SNum) else rnp.round(v, decimals)
        else:
            f = e_round
        return f(x) if isinstance(x, SYM) else emap(f, x)
    return rnp.round(x, decimals)


np.round = _round
np.around = np.round
np.trunc = np.fix
for _n in ('add', 'subtract', 'multiply', 'divide', 'true_divide', 'floor_divide', 'power', 'maximum', 'minimum',
           'logical_and', 'logical_or', 'greater', 'less', 'equal', 'not_equal', 'greater_equal', 'less_equal'):
    setattr(np, _n, _bin(_n))


def sqrt(x, **k):
    if isinstance(x, SYM):
        return e_sqrt(x)
    if is_sym(x):
        return emap(e_sqrt, x)
    if core.CUR[0] is not None and isinstance(x, (int, float, rnp.integer, rnp.floating)) and not isinstance(x, bool):
        return exact_sqrt(x)
    return rnp.sqrt(x, **k)


np.sqrt = sqrt


def abs_(x, **k):
    if isinstance(x, SYM):
        return e_abs(x)
    if is_sym(x):
        r = emap(e_abs, x, ldtype='float')
        return r
    return rnp.abs(x)


np.abs = abs_
np.absolute = abs_


def exp(x, **k):
    if isinstance(x, SYM):
        return e_exp(x)
    if is_sym(x):
        return emap(e_exp, x)
    return rnp.exp(x)


np.exp = exp
np.sinc = lambda x: (e_sinc(x) if isinstance(x, SYM) else emap(e_sinc, x)) if is_sym(x) else rnp.sinc(x)
np.real = lambda x: (e_real(x) if isinstance(x, SYM) else to_sarr(x).real) if is_sym(x) else rnp.real(x)
np.imag = lambda x: (e_imag(x) if isinstance(x, SYM) else to_sarr(x).imag) if is_sym(x) else rnp.imag(x)


def _closed_value(v):
    """numeric value of an element without free variables (closed phases / constants), else None"""
    if isinstance(v, SCx):
        for k, (a, b) in v.t.items():
            if not (k.is_const() and a.is_const() and b.is_const()):
                return None
        return core.evalf(v, None)
    if isinstance(v, SNum):
        c = v.const()
        return None if c is None else float(c)
    if isinstance(v, SBool):
        return None
    return v


def angle(z, deg=False):
    if is_sym(z):
        if isinstance(z, SYM):
            c = _closed_value(z)
            if c is None:
                raise SymxUnsupported('angle of symbolic value')
            return rnp.angle(c, deg)
        Z = to_sarr(z)
        vals = [_closed_value(v) for v in Z.flat]
        if any(v is None for v in vals):
            raise SymxUnsupported('angle of symbolic value')
        return rnp.angle(rnp.array(vals, dtype=complex).reshape(Z.shape), deg)
    return rnp.angle(z, deg)


np.angle = angle


def _red(fname, f, init, post=None):
    real = getattr(rnp, fname)

    def g(a, axis=None, out=None, keepdims=False, **k):
        if is_sym(a):
            if isinstance(a, SYM):
                return a
            r = reduce_arr(f, to_sarr(a), axis, init, keepdims)
            if type(r) in (int, float):
                # the identity of an empty reduction: a numpy scalar (it has a dtype), typed like the array's logical dtype
                r = rnp.int64(r) if getattr(a, 'ldtype', None) == 'int' else rnp.float64(r)
            return r
        return real(a, axis=axis, **({'keepdims': keepdims} if keepdims else {}), **k)
    g.__name__ = fname
    return g


np.sum = _red('sum', UF['add'], 0)
np.prod = _red('prod', UF['multiply'], 1)
np.max = _red('max', e_max, None)
np.min = _red('min', e_min, None)
np.amax = np.max
np.amin = np.min
np.nanmax = _red('nanmax', e_max, None)
np.nanmin = _red('nanmin', e_min, None)
np.any = _red('any', e_or, False)
np.all = _red('all', e_and, True)


GENERIC_NONZERO = [False]


def count_nonzero(a, axis=None):
    if is_sym(a):
        def one(v):
            if GENERIC_NONZERO[0] and isinstance(v, (SNum, SCx)) and not _is_zero(v) and pyval(v) is None:
                # generic-position assumption (explicit, recorded): a value that is not identically zero is non-zero
                c = core.CUR[0]
                t = (v != 0)
                if isinstance(t, SBool):
                    c.assume(t)
                    return 1
                return builtins.int(bool(t))
            t = _b(v)
            return ite(t, 1, 0) if isinstance(t, SBool) else builtins.int(t)
        return reduce_arr(UF['add'], emap(one, a), axis, 0)
    return rnp.count_nonzero(a, axis=axis)


np.count_nonzero = count_nonzero
np.dot = dot


def outer(a, b, out=None):
    if is_sym(a) or is_sym(b):
        A = to_sarr(a).ravel()
        B = to_sarr(b).ravel()
        return emap(e_mul, A.reshape(-1, 1), B.reshape(1, -1))
    return rnp.outer(a, b)


np.outer = outer


def einsum(spec, *ops, **kw):
    if not any(is_sym(o) for o in ops):
        return rnp.einsum(spec, *ops, **kw)
    ops = [to_sarr(o).view(rnp.ndarray) for o in ops]
    spec = spec.replace(' ', '')
    ins, outs = spec.split('->')
    ins = ins.split(',')
    if len(ins) != len(ops):
        raise ValueError('einsum operand count')
    dims = {}
    for s, o in zip(ins, ops):
        if len(s) != o.ndim:
            raise ValueError(f'einstein sum subscripts string contains too many subscripts for operand')
        for ch, n in zip(s, o.shape):
            if dims.setdefault(ch, n) != n:
                if dims[ch] == 1:
                    dims[ch] = n
                elif n != 1:
                    raise ValueError(f'operands could not be broadcast together with remapped shapes [einsum {spec}]')
    summed = [ch for ch in dims if ch not in outs]
    out = rnp.empty([dims[ch] for ch in outs], dtype=object)
    for oidx in rnp.ndindex(*[dims[ch] for ch in outs]):
        env = dict(zip(outs, oidx))
        acc = 0
        for sidx in rnp.ndindex(*[dims[ch] for ch in summed]):
            env.update(zip(summed, sidx))
            term = 1
            skip = False
            for s, o in zip(ins, ops):
                v = o[tuple(env[ch] if o.shape[k] != 1 else 0 for k, ch in enumerate(s))]
                if _is_zero(v):
                    skip = True
                    break
                term = e_mul(term, v)
            if not skip:
                acc = acc + term
        out[oidx] = acc
    if out.shape == ():
        return out[()]
    return out.view(SArr)


np.einsum = einsum


def where(c, *ab):
    if not ab:
        if is_sym(c):
            return nonzero(c)
        return rnp.where(c)
    a, b = ab
    if is_sym(c) or is_sym(a) or is_sym(b):
        def sel(cc, x, y):
            cc = _b(cc) if isinstance(cc, SYM) else bool(cc)
            if cc is True:
                return x
            if cc is False:
                return y
            return ite(cc, x, y)
        return emap(sel, c, a, b)
    return rnp.where(c, a, b)


np.where = where
np.nonzero = lambda a: nonzero(a) if is_sym(a) else rnp.nonzero(a)


def array_equal(a, b):
    if is_sym(a) or is_sym(b):
        A, B = to_sarr(a), to_sarr(b)
        if A.shape != B.shape:
            return False
        r = True
        for x, y in zip(A.flat, B.flat):
            e = _cmp('eq')(x, y)
            r = e_and(r, e)
            if r is False:
                return False
        return bool(r)
    return rnp.array_equal(a, b)


np.array_equal = array_equal


def broadcast_to(x, shape, **k):
    if isinstance(shape, SArr) or (isinstance(shape, (tuple, list)) and any(isinstance(s, SNum) for s in shape)):
        shape = tuple(core.concretize(s) if isinstance(s, SNum) else builtins.int(s) for s in shape)
    if is_sym(x):
        return wrap(rnp.broadcast_to(to_sarr(x).view(rnp.ndarray), shape))
    return rnp.broadcast_to(x, shape)


np.broadcast_to = broadcast_to


def arange(*a, **k):
    a = [core.concretize(x) if isinstance(x, SNum) and x.is_int else x for x in a]
    if any(isinstance(x, SYM) for x in a):
        raise SymxUnsupported('arange with symbolic real bounds')
    return rnp.arange(*a, **k)


np.arange = arange


def clip(a, lo, hi, out=None):
    if is_sym(a) or is_sym(lo) or is_sym(hi):
        def f(v, l, h):
            if l is not None:
                v = sx_max(v, l)
            if h is not None:
                v = sx_min(v, h)
            return v
        r = emap(f, a, lo, hi) if isinstance(a, (rnp.ndarray, list, tuple)) else f(a, lo, hi)
        if out is not None:
            out[...] = r
            return out
        return r
    return rnp.clip(a, lo, hi, out=out)


np.clip = clip


def can_cast(frm, to, casting='safe'):
    return rnp.can_cast(frm, to, casting)


np.can_cast = can_cast


def iscomplexobj(x):
    if isinstance(x, SArr):
        if x.ldtype == 'complex':
            return True
        if x.ldtype in ('float', 'int', 'bool'):
            return False
        return any(isinstance(v, SCx) and not v.is_real() or isinstance(v, PYCX) for v in x.flat)
    if isinstance(x, SCx):
        return True
    if isinstance(x, (SNum, SBool)):
        return False
    return rnp.iscomplexobj(x)


np.iscomplexobj = iscomplexobj
np.isscalar = lambda x: True if isinstance(x, SYM) else rnp.isscalar(x)


def polyval(p, x):
    if is_sym(p) or is_sym(x):
        P = to_sarr(p).ravel()
        acc = 0
        for c in P:
            acc = acc * x + c
        return acc
    return rnp.polyval(p, x)


np.polyval = polyval


def polyder(p, m=1):
    if is_sym(p):
        P = list(to_sarr(p).ravel())
        for _ in range(m):
            n = len(P) - 1
            P = [c * (n - i) for i, c in enumerate(P[:-1])]
        return to_sarr(P)
    return rnp.polyder(p, m)


np.polyder = polyder


def diff(a, n=1, axis=-1):
    if is_sym(a):
        A = to_sarr(a)
        if A.ndim != 1 or n != 1:
            raise SymxUnsupported('diff')
        return A[1:] - A[:-1]
    return rnp.diff(a, n=n, axis=axis)


np.diff = diff
np.ediff1d = lambda a: diff(to_sarr(a).ravel()) if is_sym(a) else rnp.ediff1d(a)


def trapz(y, x=None, dx=1.0, axis=-1):
    if is_sym(y) or is_sym(x):
        Y = to_sarr(y)
        if Y.ndim != 1:
            raise SymxUnsupported('trapz nd')
        acc = 0
        if x is None:
            for k in range(len(Y) - 1):
                acc = acc + (Y[k] + Y[k + 1]) * dx / 2
        else:
            X = to_sarr(x)
            for k in range(len(Y) - 1):
                acc = acc + (X[k + 1] - X[k]) * (Y[k] + Y[k + 1]) / 2
        return acc
    return rnp.trapz(y, x=x, dx=dx, axis=axis)


np.trapz = trapz


def linspace(start, stop, num=50, endpoint=True, **k):
    if isinstance(num, SNum):
        num = core.concretize(num)
    if is_sym(start) or is_sym(stop):
        num = builtins.int(num)
        if num == 1:
            return to_sarr([start])
        div = (num - 1) if endpoint else num
        step = (stop - start) / div
        vals = [start + step * i for i in range(num)]
        if endpoint and num > 1:
            vals[-1] = stop
        return to_sarr(vals, 'float')
    return rnp.linspace(start, stop, builtins.int(num), endpoint=endpoint, **k)


np.linspace = linspace


def sort(a, axis=-1, **k):
    if is_sym(a):
        A = to_sarr(a)
        if A.ndim == 1:
            keys = []
            for v in A:
                if isinstance(v, SNum) and v.const() is not None:
                    keys.append(v.const())
                elif isinstance(v, PYNUM):
                    keys.append(core.F(v))
                else:
                    keys = None
                    break
            if keys is not None:      # constants: exact ordering, elements kept as they are
                order = sorted(range(len(keys)), key=lambda i: keys[i])
                return to_sarr([A[i] for i in order], A.ldtype)
        c = try_concrete(A)
        if c is not None:
            return rnp.sort(c, axis=axis)
        if A.ndim != 1:
            raise SymxUnsupported('sort of a symbolic n-d array')
        v = list(A)
        n = len(v)
        for i in range(n):                      # bubble network of min/max (conditions pruned by the path condition)
            for j in range(n - 1 - i):
                lo, hi = sx_min(v[j], v[j + 1]), sx_max(v[j], v[j + 1])
                v[j], v[j + 1] = lo, hi
        return to_sarr(v, A.ldtype)
    return rnp.sort(a, axis=axis, **k)


np.sort = sort


def _argext(which):
    real = getattr(rnp, which)
    better = _cmp('gt') if which == 'argmax' else _cmp('lt')

    def f(a, axis=None, **k):
        if is_sym(a):
            A = to_sarr(a)
            if axis is not None and A.ndim != 1:
                raise SymxUnsupported(f'{which} along an axis of a symbolic n-d array')
            flat = list(A.ravel())
            best = 0
            for i in range(1, len(flat)):
                r = better(flat[i], flat[best])
                if bool(r):                     # forks on symbolic comparisons (first occurrence wins, as in numpy)
                    best = i
            return best
        return real(a, axis=axis, **k)
    return f


def searchsorted(a, v, side='left', sorter=None):
    if is_sym(a) or is_sym(v):
        A = list(to_sarr(a).ravel())
        def one(x):
            # number of elements strictly smaller (left) / smaller or equal (right) than x in the sorted array: forks on comparisons
            k = 0
            for e in A:
                c = _cmp('lt')(e, x) if side == 'left' else _cmp('le')(e, x)
                if bool(c):
                    k += 1
                else:
                    break
            return k
        if isinstance(v, (rnp.ndarray, list, tuple)):
            return rnp.array([one(x) for x in to_sarr(v).ravel()]).reshape(rnp.shape(v))
        return one(v)
    return rnp.searchsorted(a, v, side=side, sorter=sorter)


np.searchsorted = searchsorted
np.asfortranarray = lambda a, **k: wrap(rnp.asfortranarray(to_sarr(a).view(rnp.ndarray))) if is_sym(a) else rnp.asfortranarray(a, **k)
np.flatnonzero = lambda a: nonzero(to_sarr(a).ravel())[0] if is_sym(a) else rnp.flatnonzero(a)


def cumsum(a, axis=None, **k):
    if is_sym(a):
        A = to_sarr(a)
        if A.ndim != 1 and axis is not None:
            raise SymxUnsupported('cumsum along an axis of a symbolic n-d array')
        out, acc = [], 0
        for v in A.ravel():
            acc = acc + v
            out.append(acc)
        return to_sarr(out, A.ldtype)
    return rnp.cumsum(a, axis=axis, **k)


np.cumsum = cumsum


def trim_zeros(filt, trim='fb'):
    if is_sym(filt):
        A = list(to_sarr(filt).ravel())
        lo, hi = 0, len(A)
        if 'f' in trim.lower():
            while lo < hi and bool(_cmp('eq')(A[lo], 0)):          # forks on symbolic elements
                lo += 1
        if 'b' in trim.lower():
            while hi > lo and bool(_cmp('eq')(A[hi - 1], 0)):
                hi -= 1
        return to_sarr(A[lo:hi], getattr(filt, 'ldtype', None)) if isinstance(filt, rnp.ndarray) else A[lo:hi]
    return rnp.trim_zeros(filt, trim)


np.trim_zeros = trim_zeros
np.argmax = _argext('argmax')
np.argmin = _argext('argmin')


def putmask(a, mask, values):
    if is_sym(a) or is_sym(mask) or is_sym(values):
        a[...] = where(mask, values, a)
        return None
    return rnp.putmask(a, mask, values)


np.putmask = putmask


def isclose(a, b, rtol=1e-05, atol=1e-08, equal_nan=False):
    """numpy's definition: |a - b| <= atol + rtol * |b|"""
    if is_sym(a) or is_sym(b):
        def f(x, y):
            d = e_abs(x - y)
            return _cmp('le')(d, atol + rtol * e_abs(y))
        if isinstance(a, (rnp.ndarray, list, tuple)) or isinstance(b, (rnp.ndarray, list, tuple)):
            return emap(f, a, b)
        return f(a, b)
    return rnp.isclose(a, b, rtol=rtol, atol=atol, equal_nan=equal_nan)


np.isclose = isclose
np.allclose = lambda a, b, **k: np.all(isclose(a, b, **k))


# ---- fft by the defining sum (concrete N) -----------------------------------
def _dft_matrix(n, sgn):
    W = rnp.empty((n, n), dtype=object)
    for a in range(n):
        for b in range(n):
            W[a, b] = core.unit(Fraction(sgn * a * b, n))
    return W


def _fftn(x, inverse, norm, axes):
    X = to_sarr(x).view(rnp.ndarray)
    X = emap(SCx.of, X).view(rnp.ndarray)
    sgn = 1 if inverse else -1
    tot = 1
    for ax in axes:
        n = X.shape[ax]
        tot *= n
        W = _dft_matrix(n, sgn)
        Xm = rnp.moveaxis(X, ax, 0)
        flat = Xm.reshape(n, -1)
        res = dot(W, flat)
        res = rnp.asarray(res.view(rnp.ndarray)).reshape(Xm.shape)
        X = rnp.moveaxis(res, 0, ax)
    r = X.view(SArr)
    if norm == 'ortho':
        r = r / sx_sqrt(SNum(Poly.const(tot), False))
    elif (inverse and norm in (None, 'backward')) or (not inverse and norm == 'forward'):
        r = r / tot
    r.ldtype = 'complex'
    return r


class _FFT(types.ModuleType):
    pass


fftm = _FFT('numpy.fft')


def _mkfft(name, inverse, nd):
    real = getattr(rnp.fft, name)

    def f(x, s=None, axes=None, norm=None, n=None, axis=-1):
        if not is_sym(x):
            if nd == 1:
                return real(x, n=n, axis=axis, norm=norm)
            return real(x, s=s, axes=axes, norm=norm) if nd == 2 else real(x, s=s, axes=axes, norm=norm)
        if s is not None or n is not None:
            raise SymxUnsupported('fft with explicit size')
        X = to_sarr(x)
        if nd == 1:
            ax = [axis % X.ndim]
        elif axes is None:
            ax = list(range(X.ndim))[-2:] if nd == 2 else list(range(X.ndim))
        else:
            ax = [a % X.ndim for a in axes]
        return _fftn(X, inverse, norm, ax)
    return f


fftm.fft = _mkfft('fft', False, 1)
fftm.ifft = _mkfft('ifft', True, 1)
fftm.fft2 = _mkfft('fft2', False, 2)
fftm.ifft2 = _mkfft('ifft2', True, 2)
fftm.fftn = _mkfft('fftn', False, 3)
fftm.ifftn = _mkfft('ifftn', True, 3)
fftm.fftshift = lambda x, axes=None: wrap(rnp.fft.fftshift(to_sarr(x).view(rnp.ndarray) if is_sym(x) else x, axes=axes))
fftm.ifftshift = lambda x, axes=None: wrap(rnp.fft.ifftshift(to_sarr(x).view(rnp.ndarray) if is_sym(x) else x, axes=axes))
fftm.fftfreq = rnp.fft.fftfreq
np.fft = fftm


# ---- linalg / random are installed by stubs.py --------------------------------
class _NS(types.ModuleType):
    def __getattr__(self, n):
        raise SymxUnsupported(f'{self.__name__}.{n} is not modelled')


np.linalg = _NS('numpy.linalg')
np.random = _NS('numpy.random')


def sym_real_array(name, shape, **kw):
    a = rnp.empty(shape, dtype=object)
    for idx in rnp.ndindex(*shape):
        a[idx] = core.real_var(name + '_' + '_'.join(map(str, idx)), **kw)
    r = a.view(SArr)
    r.ldtype = 'float'
    return r


def sym_complex_array(name, shape):
    a = rnp.empty(shape, dtype=object)
    for idx in rnp.ndindex(*shape):
        n = name + '_' + '_'.join(map(str, idx))
        a[idx] = SCx({P0: (core.real_var(n + 'r').p, core.real_var(n + 'i').p)})
    r = a.view(SArr)
    r.ldtype = 'complex'
    return r

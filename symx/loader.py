"""Load the unmodified lentil sources (fresh from $VERIF_REPO or /repo on every run) into private modules whose
`import numpy` resolves to the symbolic shim.  The only source transformation is mechanical: *calls* of the builtins
int(...), float(...), complex(...) are routed to symbolic-aware versions (their use as dtype arguments is untouched);
line numbers are preserved."""
import ast, builtins, os, sys, types, functools
import numpy as rnp
from . import core, arrays


def repo_root():
    return os.environ.get('VERIF_REPO', '/repo')


class _Calls(ast.NodeTransformer):
    MAP = {'int': '__sx_int__', 'float': '__sx_float__', 'complex': '__sx_complex__'}

    def visit_Call(self, node):
        self.generic_visit(node)
        if isinstance(node.func, ast.Name) and node.func.id in self.MAP:
            node.func = ast.copy_location(ast.Name(id=self.MAP[node.func.id], ctx=ast.Load()), node.func)
        return node


def sx_isinstance(o, t):
    if isinstance(o, core.SNum):
        ts = t if isinstance(t, tuple) else (t,)
        for x in ts:
            if x is builtins.int and o.is_int:
                return True
            if x is builtins.float and not o.is_int:
                return True
            if x is builtins.int and False:
                return True
        # numbers.Number etc.
        return builtins.isinstance(o, t)
    return builtins.isinstance(o, t)


def sx_range(*a):
    return range(*[core.concretize(x) if isinstance(x, core.SNum) else x for x in a])


def sx_len(x):
    return builtins.len(x)


def sx_minmax(which):
    real = getattr(builtins, which)
    pair = core.sx_min if which == 'min' else core.sx_max

    def f(*a, **k):
        items = a[0] if len(a) == 1 else a
        if k or not any(isinstance(x, core.SNum) for x in (items if isinstance(items, (list, tuple)) else [])):
            if isinstance(items, rnp.ndarray) and arrays.is_obj(items):
                items = list(items.flat)
            else:
                return real(*a, **k)
        items = list(items)
        acc = items[0]
        for x in items[1:]:
            acc = pair(acc, x)
        return acc
    return f


def sx_round(x, n=None):
    if isinstance(x, core.SNum):
        return core.sx_round(x)
    return builtins.round(x, n) if n is not None else builtins.round(x)


def sx_any(it):
    acc = False
    for v in it:
        acc = arrays.e_or(acc, v)
        if acc is True:
            return True
    return acc if isinstance(acc, bool) else bool(acc)


def sx_all(it):
    acc = True
    for v in it:
        acc = arrays.e_and(acc, v)
        if acc is False:
            return False
    return acc if isinstance(acc, bool) else bool(acc)


class Loader:
    def __init__(self, root=None, shims=None):
        self.root = os.path.join(root or repo_root(), 'lentil')
        self.reg = {}
        self.real_import = builtins.__import__
        self.shims = {'numpy': arrays.np}
        if shims:
            self.shims.update(shims)
        self.entered = set()
        pkg = self._make('lentil', os.path.join(self.root, '__init__.py'))
        pkg.__path__ = [self.root]
        self.reg['lentil'] = pkg
        self._exec(pkg)
        self.pkg = pkg

    def _imp(self, n, g=None, l=None, fromlist=(), level=0):
        if level:
            raise ImportError('relative import in lentil source')
        top = n.split('.')[0]
        if n in self.shims:
            if '.' in n and not fromlist and top in self.shims:
                return self.shims[top]          # `import a.b` binds the top-level package
            return self.shims[n]
        if top in self.shims and n not in self.shims:
            # e.g. "import scipy.ndimage" -> returns top-level shim; "from scipy import ndimage" handled by attr
            m = self.shims[top]
            if fromlist:
                for part in n.split('.')[1:]:
                    m = getattr(m, part)
            return m
        if n == 'lentil' or n.startswith('lentil.'):
            if n != 'lentil':
                self._get(n)
            if fromlist:
                if n == 'lentil':
                    for f in fromlist:
                        if not hasattr(self.reg[n], f) and os.path.exists(os.path.join(self.root, f + '.py')):
                            self._get('lentil.' + f)
                return self.reg[n]
            return self.reg['lentil']
        return self.real_import(n, g, l, fromlist, level)

    def _make(self, name, path):
        mod = types.ModuleType(name)
        mod.__file__ = path
        mod.__package__ = 'lentil'
        bi = dict(vars(builtins))
        bi['__import__'] = self._imp
        bi['__sx_int__'] = core.sx_int
        bi['__sx_float__'] = core.sx_float
        bi['__sx_complex__'] = core.sx_complex
        bi['isinstance'] = sx_isinstance
        bi['range'] = sx_range
        bi['min'] = sx_minmax('min')
        bi['max'] = sx_minmax('max')
        bi['round'] = sx_round
        bi['any'] = sx_any
        bi['all'] = sx_all
        mod.__dict__['__builtins__'] = bi
        return mod

    def _exec(self, mod):
        src = open(mod.__file__).read()
        tree = _Calls().visit(ast.parse(src, mod.__file__))
        ast.fix_missing_locations(tree)
        exec(compile(tree, mod.__file__, 'exec'), mod.__dict__)

    def _get(self, n):
        if n in self.reg:
            return self.reg[n]
        sub = n.split('.', 1)[1]
        mod = self._make(n, os.path.join(self.root, sub + '.py'))
        self.reg[n] = mod
        setattr(self.reg['lentil'], sub, mod)
        self._exec(mod)
        return mod

    def functions(self):
        """qualified names of all functions defined in the loaded modules (for evidence)."""
        out = {}
        for name, mod in self.reg.items():
            for k, v in vars(mod).items():
                if isinstance(v, types.FunctionType) and v.__module__ is None or getattr(v, '__globals__', None) is mod.__dict__:
                    out[v.__code__] = f'{name}.{k}'
                if isinstance(v, type) and v.__dict__.get('__module__') in (name, None):
                    for kk, vv in vars(v).items():
                        fn = vv.fget if isinstance(vv, property) else (vv.__func__ if isinstance(vv, (classmethod, staticmethod)) else vv)
                        if isinstance(fn, types.FunctionType) and fn.__globals__ is mod.__dict__:
                            out[fn.__code__] = f'{name}.{k}.{kk}'
        return out


_REAL = [None]
CURRENT = [None]      # the Loader whose private package the symbolic world uses


def real_lentil():
    """The real package under the real numpy (for replay / validation), loaded from the same source tree."""
    if _REAL[0] is None:
        root = repo_root()
        for k in [k for k in sys.modules if k == 'lentil' or k.startswith('lentil.')]:
            del sys.modules[k]
        sys.path.insert(0, root)
        try:
            import lentil
        finally:
            sys.path.remove(root)
        if not os.path.abspath(lentil.__file__).startswith(os.path.abspath(root)):
            raise RuntimeError(f'real lentil imported from {lentil.__file__}, expected under {root}')
        _REAL[0] = lentil
    return _REAL[0]
